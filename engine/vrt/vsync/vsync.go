// Package vsync replaces "sync" in the instrumented build. Outside the controlled scheduler the
// types behave like the real ones (delegating); under the scheduler every operation is a
// scheduling point, carries a vector clock, and blocking is visible to the explorer.
package vsync

import (
	"sync"

	"verif/vrt"
)

// Locker mirrors sync.Locker.
type Locker = sync.Locker

// Mutex is a scheduled mutex.
type Mutex struct {
	real sync.Mutex
	held bool
	obj  vrt.SyncObj
}

func (m *Mutex) Lock() {
	if !vrt.Scheduled() {
		m.real.Lock()
		return
	}
	for {
		vrt.SyncPoint(1)
		if !m.held {
			m.held = true
			vrt.Acquire(&m.obj)
			return
		}
		vrt.Block(m)
	}
}

func (m *Mutex) TryLock() bool {
	if !vrt.Scheduled() {
		return m.real.TryLock()
	}
	vrt.SyncPoint(1)
	if m.held {
		return false
	}
	m.held = true
	vrt.Acquire(&m.obj)
	return true
}

func (m *Mutex) Unlock() {
	if !vrt.Scheduled() {
		m.real.Unlock()
		return
	}
	vrt.SyncPoint(2)
	if !m.held {
		panic("sync: unlock of unlocked mutex")
	}
	m.held = false
	vrt.Release(&m.obj)
	vrt.Unblock(m)
}

// RWMutex is a scheduled reader/writer mutex.
type RWMutex struct {
	real    sync.RWMutex
	writer  bool
	readers int
	obj     vrt.SyncObj
}

func (m *RWMutex) Lock() {
	if !vrt.Scheduled() {
		m.real.Lock()
		return
	}
	for {
		vrt.SyncPoint(3)
		if !m.writer && m.readers == 0 {
			m.writer = true
			vrt.Acquire(&m.obj)
			return
		}
		vrt.Block(m)
	}
}

func (m *RWMutex) Unlock() {
	if !vrt.Scheduled() {
		m.real.Unlock()
		return
	}
	vrt.SyncPoint(4)
	m.writer = false
	vrt.Release(&m.obj)
	vrt.Unblock(m)
}

func (m *RWMutex) RLock() {
	if !vrt.Scheduled() {
		m.real.RLock()
		return
	}
	for {
		vrt.SyncPoint(5)
		if !m.writer {
			m.readers++
			vrt.Acquire(&m.obj)
			return
		}
		vrt.Block(m)
	}
}

func (m *RWMutex) RUnlock() {
	if !vrt.Scheduled() {
		m.real.RUnlock()
		return
	}
	vrt.SyncPoint(6)
	m.readers--
	vrt.Release(&m.obj)
	vrt.Unblock(m)
}

func (m *RWMutex) RLocker() Locker { return rlocker{m} }

type rlocker struct{ m *RWMutex }

func (r rlocker) Lock()   { r.m.RLock() }
func (r rlocker) Unlock() { r.m.RUnlock() }

// Once is a scheduled once.
type Once struct {
	real    sync.Once
	done    bool
	running bool
	obj     vrt.SyncObj
}

func (o *Once) Do(f func()) {
	if !vrt.Scheduled() {
		o.real.Do(func() {
			f()
			o.done = true
		})
		return
	}
	for {
		vrt.SyncPoint(7)
		if o.done {
			vrt.Acquire(&o.obj)
			return
		}
		if !o.running {
			o.running = true
			defer func() {
				o.done = true
				o.running = false
				vrt.Release(&o.obj)
				vrt.Unblock(o)
			}()
			f()
			return
		}
		vrt.Block(o)
	}
}

// WaitGroup is a scheduled wait group.
type WaitGroup struct {
	real sync.WaitGroup
	n    int
	obj  vrt.SyncObj
}

func (w *WaitGroup) Add(d int) {
	if !vrt.Scheduled() {
		w.real.Add(d)
		return
	}
	vrt.SyncPoint(8)
	w.n += d
	vrt.Release(&w.obj)
	if w.n <= 0 {
		vrt.Unblock(w)
	}
}

func (w *WaitGroup) Done() { w.Add(-1) }

func (w *WaitGroup) Wait() {
	if !vrt.Scheduled() {
		w.real.Wait()
		return
	}
	for {
		vrt.SyncPoint(9)
		if w.n <= 0 {
			vrt.Acquire(&w.obj)
			return
		}
		vrt.Block(w)
	}
}

// Pool is a scheduled object pool. The real pool may return any previously Put object or a new
// one; here Get deterministically prefers the most recently Put object (the choice that exposes
// incomplete resets), and a Put happens-before the Get that returns the object.
type Pool struct {
	New   func() any
	items []poolItem
	real  sync.Pool
}

type poolItem struct {
	v   any
	obj vrt.SyncObj
}

// PoolReuse controls Get outside the scheduler too: when true (the harness sets it) a pool reuses
// its most recently Put object deterministically instead of delegating to the real sync.Pool.
var PoolReuse = true

func (p *Pool) Get() any {
	vrt.SyncPoint(10)
	if !PoolReuse && !vrt.Scheduled() {
		if p.real.New == nil {
			p.real.New = p.New
		}
		return p.real.Get()
	}
	if n := len(p.items); n > 0 {
		it := p.items[n-1]
		p.items = p.items[:n-1]
		vrt.Acquire(&it.obj)
		return it.v
	}
	if p.New != nil {
		return p.New()
	}
	return nil
}

func (p *Pool) Put(x any) {
	vrt.SyncPoint(11)
	if !PoolReuse && !vrt.Scheduled() {
		p.real.Put(x)
		return
	}
	it := poolItem{v: x}
	vrt.Release(&it.obj)
	p.items = append(p.items, it)
}

// Map delegates to sync.Map with scheduling points and a single clock for the whole map.
type Map struct {
	real sync.Map
	obj  vrt.SyncObj
}

func (m *Map) Load(k any) (any, bool) {
	vrt.SyncPoint(12)
	vrt.Acquire(&m.obj)
	return m.real.Load(k)
}
func (m *Map) Store(k, v any) {
	vrt.SyncPoint(13)
	vrt.Acquire(&m.obj)
	m.real.Store(k, v)
	vrt.Release(&m.obj)
}
func (m *Map) LoadOrStore(k, v any) (any, bool) {
	vrt.SyncPoint(14)
	vrt.Acquire(&m.obj)
	a, l := m.real.LoadOrStore(k, v)
	vrt.Release(&m.obj)
	return a, l
}
func (m *Map) LoadAndDelete(k any) (any, bool) {
	vrt.SyncPoint(15)
	vrt.Acquire(&m.obj)
	a, l := m.real.LoadAndDelete(k)
	vrt.Release(&m.obj)
	return a, l
}
func (m *Map) Delete(k any) {
	vrt.SyncPoint(16)
	vrt.Acquire(&m.obj)
	m.real.Delete(k)
	vrt.Release(&m.obj)
}
func (m *Map) Range(f func(k, v any) bool) {
	vrt.SyncPoint(17)
	vrt.Acquire(&m.obj)
	m.real.Range(f)
}

// OnceFunc / OnceValue mirror the helpers of package sync.
func OnceFunc(f func()) func() {
	var o Once
	return func() { o.Do(f) }
}
