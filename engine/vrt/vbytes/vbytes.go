// Package vbytes replaces "bytes" in the instrumented build.
package vbytes

import (
	"bytes"
	"unicode"

	"verif/vrt"
)

type (
	Buffer = bytes.Buffer
	Reader = bytes.Reader
)

const MinRead = bytes.MinRead

func c(n int) { vrt.Charge(n + 1) }

func scanned(i, n, m int) int {
	if i < 0 {
		return n
	}
	return i + m
}

func Index(s, sub []byte) int        { i := bytes.Index(s, sub); c(scanned(i, len(s), len(sub))); return i }
func IndexByte(s []byte, b byte) int { i := bytes.IndexByte(s, b); c(scanned(i, len(s), 1)); return i }
func IndexAny(s []byte, chars string) int { c(len(s) + len(chars)); return bytes.IndexAny(s, chars) }
func IndexRune(s []byte, r rune) int { c(len(s)); return bytes.IndexRune(s, r) }
func IndexFunc(s []byte, f func(rune) bool) int { c(len(s)); return bytes.IndexFunc(s, f) }
func LastIndex(s, sub []byte) int    { c(len(s) + len(sub)); return bytes.LastIndex(s, sub) }
func LastIndexByte(s []byte, b byte) int { c(len(s)); return bytes.LastIndexByte(s, b) }
func Contains(s, sub []byte) bool    { return Index(s, sub) >= 0 }
func ContainsAny(s []byte, chars string) bool { c(len(s) + len(chars)); return bytes.ContainsAny(s, chars) }
func Count(s, sub []byte) int        { c(len(s) + len(sub)); return bytes.Count(s, sub) }
func Equal(a, b []byte) bool         { c(len(a) + len(b)); return bytes.Equal(a, b) }
func EqualFold(a, b []byte) bool     { c(len(a) + len(b)); return bytes.EqualFold(a, b) }
func Compare(a, b []byte) int        { c(len(a) + len(b)); return bytes.Compare(a, b) }
func HasPrefix(s, p []byte) bool     { c(len(p)); return bytes.HasPrefix(s, p) }
func HasSuffix(s, p []byte) bool     { c(len(p)); return bytes.HasSuffix(s, p) }
func ToUpper(s []byte) []byte        { c(len(s)); return bytes.ToUpper(s) }
func ToLower(s []byte) []byte        { c(len(s)); return bytes.ToLower(s) }
func TrimSpace(s []byte) []byte      { c(len(s)); return bytes.TrimSpace(s) }
func Trim(s []byte, cut string) []byte { c(len(s)); return bytes.Trim(s, cut) }
func TrimLeft(s []byte, cut string) []byte { c(len(s)); return bytes.TrimLeft(s, cut) }
func TrimRight(s []byte, cut string) []byte { c(len(s)); return bytes.TrimRight(s, cut) }
func TrimFunc(s []byte, f func(rune) bool) []byte { c(len(s)); return bytes.TrimFunc(s, f) }
func TrimLeftFunc(s []byte, f func(rune) bool) []byte { c(len(s)); return bytes.TrimLeftFunc(s, f) }
func TrimPrefix(s, p []byte) []byte  { c(len(p)); return bytes.TrimPrefix(s, p) }
func TrimSuffix(s, p []byte) []byte  { c(len(p)); return bytes.TrimSuffix(s, p) }
func Replace(s, o, n []byte, k int) []byte { r := bytes.Replace(s, o, n, k); c(len(s) + len(r)); return r }
func ReplaceAll(s, o, n []byte) []byte { r := bytes.ReplaceAll(s, o, n); c(len(s) + len(r)); return r }
func Repeat(s []byte, n int) []byte  { r := bytes.Repeat(s, n); c(len(r)); return r }
func Split(s, sep []byte) [][]byte   { c(len(s) + len(sep)); return bytes.Split(s, sep) }
func Fields(s []byte) [][]byte       { c(len(s)); return bytes.Fields(s) }
func Join(a [][]byte, sep []byte) []byte { r := bytes.Join(a, sep); c(len(r)); return r }
func Map(f func(rune) rune, s []byte) []byte { c(len(s)); return bytes.Map(f, s) }
func Clone(s []byte) []byte          { c(len(s)); return bytes.Clone(s) }
func NewBuffer(b []byte) *Buffer     { return bytes.NewBuffer(b) }
func NewBufferString(s string) *Buffer { return bytes.NewBufferString(s) }
func NewReader(b []byte) *Reader     { return bytes.NewReader(b) }

// the rest of the package's functions (whole-input cost), so that any use of "bytes" compiles in the instrumented build
func ContainsFunc(b []byte, f func(rune) bool) bool   { c(len(b)); return bytes.ContainsFunc(b, f) }
func ContainsRune(b []byte, r rune) bool              { c(len(b)); return bytes.ContainsRune(b, r) }
func Cut(s, sep []byte) (before, after []byte, found bool) { c(len(s)); return bytes.Cut(s, sep) }
func CutPrefix(s, prefix []byte) ([]byte, bool)       { c(len(prefix)); return bytes.CutPrefix(s, prefix) }
func CutSuffix(s, suffix []byte) ([]byte, bool)       { c(len(suffix)); return bytes.CutSuffix(s, suffix) }
func FieldsFunc(s []byte, f func(rune) bool) [][]byte { c(len(s)); return bytes.FieldsFunc(s, f) }
func LastIndexAny(s []byte, chars string) int         { c(len(s) + len(chars)); return bytes.LastIndexAny(s, chars) }
func LastIndexFunc(s []byte, f func(rune) bool) int   { c(len(s)); return bytes.LastIndexFunc(s, f) }
func Runes(s []byte) []rune                           { c(len(s)); return bytes.Runes(s) }
func SplitAfter(s, sep []byte) [][]byte               { c(len(s)); return bytes.SplitAfter(s, sep) }
func SplitAfterN(s, sep []byte, n int) [][]byte       { c(len(s)); return bytes.SplitAfterN(s, sep, n) }
func SplitN(s, sep []byte, n int) [][]byte            { c(len(s)); return bytes.SplitN(s, sep, n) }
func Title(s []byte) []byte                           { c(len(s)); return bytes.Title(s) } //nolint
func ToLowerSpecial(cs unicode.SpecialCase, s []byte) []byte {
	c(len(s))
	return bytes.ToLowerSpecial(cs, s)
}
func ToTitle(s []byte) []byte { c(len(s)); return bytes.ToTitle(s) }
func ToTitleSpecial(cs unicode.SpecialCase, s []byte) []byte {
	c(len(s))
	return bytes.ToTitleSpecial(cs, s)
}
func ToUpperSpecial(cs unicode.SpecialCase, s []byte) []byte {
	c(len(s))
	return bytes.ToUpperSpecial(cs, s)
}
func ToValidUTF8(s, replacement []byte) []byte        { c(len(s)); return bytes.ToValidUTF8(s, replacement) }
func TrimRightFunc(s []byte, f func(rune) bool) []byte { c(len(s)); return bytes.TrimRightFunc(s, f) }
var ErrTooLarge = bytes.ErrTooLarge
