package vrt

import (
	"os"
	"fmt"
	"hash/fnv"
	"reflect"
	"sort"
	"unsafe"
)

// StateVar is one package-level variable of the instrumented package (pointer to it).
type StateVar struct {
	Name string
	Ptr  any
}

// StateVars is filled by the generated init of the instrumented package.
var StateVars []StateVar

type hasher struct {
	h     uint64
	seen  map[uintptr]bool
	nodes int
}

func (h *hasher) mix(v uint64) {
	h.h ^= v
	h.h *= 1099511628211
	h.nodes++
}

func (h *hasher) str(s string) {
	f := fnv.New64a()
	f.Write([]byte(s))
	h.mix(f.Sum64())
}

// value hashes everything reachable from v: slices up to their capacity (a hoisted scratch buffer
// re-sliced to length 0 still shows its contents), maps in sorted key order, pointers followed once.
func (h *hasher) value(v reflect.Value) {
	switch v.Kind() {
	case reflect.Bool:
		if v.Bool() {
			h.mix(1)
		} else {
			h.mix(2)
		}
	case reflect.Int, reflect.Int8, reflect.Int16, reflect.Int32, reflect.Int64:
		h.mix(uint64(v.Int()))
	case reflect.Uint, reflect.Uint8, reflect.Uint16, reflect.Uint32, reflect.Uint64, reflect.Uintptr:
		h.mix(v.Uint())
	case reflect.Float32, reflect.Float64:
		h.mix(uint64(v.Float() * 1e6))
	case reflect.String:
		h.str(v.String())
	case reflect.Slice:
		if v.IsNil() {
			h.mix(3)
			return
		}
		h.mix(uint64(v.Len()))
		full := v
		if v.Cap() > v.Len() {
			full = v.Slice(0, v.Cap())
		}
		if full.Len() > 0 && full.Type().Elem().Kind() == reflect.Uint8 {
			b := make([]byte, full.Len())
			for i := range b {
				b[i] = byte(full.Index(i).Uint())
			}
			h.str(string(b))
			return
		}
		for i := 0; i < full.Len(); i++ {
			h.value(full.Index(i))
		}
	case reflect.Array:
		for i := 0; i < v.Len(); i++ {
			h.value(v.Index(i))
		}
	case reflect.Map:
		if v.IsNil() {
			h.mix(4)
			return
		}
		h.mix(uint64(v.Len()))
		type kv struct {
			k uint64
			v reflect.Value
		}
		var items []kv
		it := v.MapRange()
		for it.Next() {
			kh := &hasher{seen: h.seen}
			kh.value(it.Key())
			items = append(items, kv{kh.h, it.Value()})
		}
		sort.Slice(items, func(i, j int) bool { return items[i].k < items[j].k })
		for _, e := range items {
			h.mix(e.k)
			h.value(e.v)
		}
	case reflect.Ptr:
		if v.IsNil() {
			h.mix(5)
			return
		}
		p := v.Pointer()
		if h.seen[p] {
			h.mix(6)
			return
		}
		h.seen[p] = true
		h.value(v.Elem())
	case reflect.Interface:
		if v.IsNil() {
			h.mix(7)
			return
		}
		h.str(v.Elem().Type().String())
		h.value(v.Elem())
	case reflect.Struct:
		for i := 0; i < v.NumField(); i++ {
			h.value(v.Field(i))
		}
	case reflect.Func:
		if v.IsNil() {
			h.mix(8)
		} else {
			h.mix(uint64(v.Pointer()))
		}
	case reflect.Chan, reflect.UnsafePointer:
		h.mix(uint64(v.Pointer()))
	default:
		h.mix(9)
	}
}

// Digest returns one hash per package-level variable of the instrumented package.
func Digest() map[string]uint64 {
	out := map[string]uint64{}
	for _, sv := range StateVars {
		h := &hasher{h: 14695981039346656037, seen: map[uintptr]bool{}}
		h.value(reflect.ValueOf(sv.Ptr).Elem())
		out[sv.Name] = h.h
	}
	return out
}

// DigestKey folds the per-variable digests into one canonical state key.
func DigestKey() string {
	d := Digest()
	names := make([]string, 0, len(d))
	for n := range d {
		names = append(names, n)
	}
	sort.Strings(names)
	h := fnv.New64a()
	for _, n := range names {
		fmt.Fprintf(h, "%s=%x;", n, d[n])
	}
	return fmt.Sprintf("%016x", h.Sum64())
}

// DiffDigest names the variables whose digest differs.
func DiffDigest(a, b map[string]uint64) []string {
	var out []string
	for n, v := range a {
		if b[n] != v {
			out = append(out, n)
		}
	}
	sort.Strings(out)
	return out
}

// ---- snapshot / restore of package state (so that every explored execution starts equal) ------

var snapshot []reflect.Value
var snapshotNodes []int

// SmallVarNodes: variables whose reachable state has fewer nodes than this are always restored.
const SmallVarNodes = 4000

func settable(v reflect.Value) reflect.Value {
	if v.CanSet() {
		return v
	}
	if v.CanAddr() {
		return reflect.NewAt(v.Type(), unsafe.Pointer(v.UnsafeAddr())).Elem()
	}
	return v
}

func readable(v reflect.Value) reflect.Value {
	if v.CanInterface() {
		return v
	}
	if v.CanAddr() {
		return reflect.NewAt(v.Type(), unsafe.Pointer(v.UnsafeAddr())).Elem()
	}
	return v
}

type copier struct {
	ptrs map[uintptr]reflect.Value
}

// deepCopy copies src into dst (dst must be settable). Functions and channels are shared.
func (c *copier) deepCopy(dst, src reflect.Value) {
	dst, src = settable(dst), readable(src)
	switch src.Kind() {
	case reflect.Slice:
		if src.IsNil() {
			dst.Set(reflect.Zero(src.Type()))
			return
		}
		n := reflect.MakeSlice(src.Type(), src.Len(), src.Cap())
		full := src.Slice(0, src.Cap())
		nfull := n.Slice(0, src.Cap())
		for i := 0; i < full.Len(); i++ {
			c.deepCopy(nfull.Index(i), full.Index(i))
		}
		dst.Set(n)
	case reflect.Array:
		for i := 0; i < src.Len(); i++ {
			c.deepCopy(dst.Index(i), src.Index(i))
		}
	case reflect.Map:
		if src.IsNil() {
			dst.Set(reflect.Zero(src.Type()))
			return
		}
		n := reflect.MakeMapWithSize(src.Type(), src.Len())
		it := src.MapRange()
		for it.Next() {
			k := reflect.New(src.Type().Key()).Elem()
			c.deepCopy(k, it.Key())
			v := reflect.New(src.Type().Elem()).Elem()
			c.deepCopy(v, it.Value())
			n.SetMapIndex(k, v)
		}
		dst.Set(n)
	case reflect.Ptr:
		if src.IsNil() {
			dst.Set(reflect.Zero(src.Type()))
			return
		}
		if p, ok := c.ptrs[src.Pointer()]; ok {
			dst.Set(p)
			return
		}
		n := reflect.New(src.Type().Elem())
		c.ptrs[src.Pointer()] = n
		c.deepCopy(n.Elem(), src.Elem())
		dst.Set(n)
	case reflect.Interface:
		if src.IsNil() {
			dst.Set(reflect.Zero(src.Type()))
			return
		}
		e := src.Elem()
		n := reflect.New(e.Type()).Elem()
		c.deepCopy(n, e)
		dst.Set(n)
	case reflect.Struct:
		for i := 0; i < src.NumField(); i++ {
			c.deepCopy(dst.Field(i), src.Field(i))
		}
	default:
		dst.Set(src)
	}
}

// Snapshot records a deep copy of the package state (call once, before any exploration).
func Snapshot() {
	snapshot, snapshotNodes = nil, nil
	for _, sv := range StateVars {
		src := reflect.ValueOf(sv.Ptr).Elem()
		cp := reflect.New(src.Type()).Elem()
		(&copier{ptrs: map[uintptr]reflect.Value{}}).deepCopy(cp, src)
		snapshot = append(snapshot, cp)
		h := &hasher{seen: map[uintptr]bool{}}
		h.value(src)
		snapshotNodes = append(snapshotNodes, h.nodes)
	}
}

// RestoreSet names the variables Restore puts back (nil: none). The harness fills it with the
// variables that have static write sites or were seen to change.
var RestoreSet = map[string]bool{}

// Restore puts the selected package variables back to the snapshot (fresh deep copies each time).
func Restore() {
	for i, sv := range StateVars {
		if i >= len(snapshot) {
			return
		}
		if !RestoreSet[sv.Name] && snapshotNodes[i] >= SmallVarNodes {
			continue
		}
		dst := reflect.ValueOf(sv.Ptr).Elem()
		(&copier{ptrs: map[uintptr]reflect.Value{}}).deepCopy(dst, snapshot[i])
	}
}

// SortedMap returns the entries of a map sorted by the printed key: the instrumented build iterates
// maps in this one canonical order (Go's randomised order is not explored).
func SortedMap(m interface{}) []KV {
	v := reflect.ValueOf(m)
	if v.Kind() != reflect.Map {
		return nil
	}
	out := make([]KV, 0, v.Len())
	it := v.MapRange()
	for it.Next() {
		out = append(out, KV{it.Key().Interface(), it.Value().Interface()})
	}
	sort.Slice(out, func(i, j int) bool { return fmt.Sprint(out[i].K) < fmt.Sprint(out[j].K) })
	if mapOrderDescending {
		// the second of the two iteration orders the harness runs every operation under: code whose result depends on
		// the (unspecified) order of a map range gives different answers in the two
		for i, j := 0, len(out)-1; i < j; i, j = i+1, j-1 {
			out[i], out[j] = out[j], out[i]
		}
	}
	charge(int64(len(out)))
	return out
}

// mapOrderDescending is read once at start-up (package initialisers of the library range over maps too).
var mapOrderDescending = os.Getenv("VRT_MAPORDER") == "desc"
