// Package vrt is the runtime linked into the auto-instrumented build of the library under test:
// deterministic work / call-depth counters with a budget, access events for package-level
// variables, a cooperative scheduler with happens-before tracking, and a package-state digest.
// It must not import the library.
package vrt

import (
	"fmt"
	"reflect"
)

// ---------------------------------------------------------------------------------------------
// work and depth counters (single-threaded use, or per scheduled thread under the scheduler)

var (
	work     int64
	depth    int
	maxDepth int
	budget   int64 // 0 = unlimited
	active   bool  // instrumentation is linked in (set by generated init)
)

// BudgetExceeded is panicked when the work budget is used up: the deterministic "does not terminate".
type BudgetExceeded struct{ Work, Budget int64 }

func (b BudgetExceeded) Error() string {
	return fmt.Sprintf("work budget exceeded: %d > %d", b.Work, b.Budget)
}

// DepthExceeded is panicked when the call depth limit is exceeded.
type DepthExceeded struct{ Depth int }

func (d DepthExceeded) Error() string { return fmt.Sprintf("call depth %d exceeds the limit", d.Depth) }

var depthLimit = 0

// MarkInstrumented is called from the generated init of the instrumented package.
func MarkInstrumented() { active = true }

// Instrumented reports whether the library was built through the instrumenter.
func Instrumented() bool { return active }

// ResetCounters zeroes work/depth and sets the budget (0 = none) and depth limit (0 = none).
func ResetCounters(workBudget int64, maxCallDepth int) {
	work, depth, maxDepth, budget, depthLimit = 0, 0, 0, workBudget, maxCallDepth
}

// Work returns the work units charged since the last reset.
func Work() int64 { return work }

// MaxDepth returns the maximal call depth since the last reset.
func MaxDepth() int { return maxDepth }

func charge(n int64) {
	work += n
	if budget > 0 && work > budget {
		b := budget
		budget = 0 // raise once
		panic(BudgetExceeded{work, b})
	}
}

// Charge adds n work units (used by the shims).
func Charge(n int) { charge(int64(n)) }

// Tick is inserted at the head of every loop body.
func Tick() {
	charge(1)
	if sched != nil {
		sched.point(pointLoop, 0, false)
	}
}

// Enter is inserted at every function entry.
func Enter(fn int) {
	depth++
	if depth > maxDepth {
		maxDepth = depth
	}
	if depthLimit > 0 && depth > depthLimit {
		depthLimit = 0
		panic(DepthExceeded{depth})
	}
	charge(1)
	if sched != nil {
		sched.point(pointEnter, fn, false)
	}
}

// Exit is deferred at every function entry.
func Exit() { depth-- }

// Cat charges a string concatenation by the size of its result.
func Cat(s string) string {
	charge(int64(len(s)) + 1)
	return s
}

// ConvS charges a []byte->string conversion.
func ConvS(s string) string {
	charge(int64(len(s)) + 1)
	return s
}

// ConvB charges a string->[]byte conversion.
func ConvB(b []byte) []byte {
	charge(int64(len(b)) + 1)
	return b
}

// Acc is inserted before every statement that touches a package-level variable.
func Acc(site, varID int, write bool) {
	if sched != nil {
		sched.access(site, varID, write, false, "")
	}
}

// AccF is Acc for an access that goes to one struct field of the variable: different fields are different locations.
func AccF(site, varID int, write bool, field string) {
	if sched != nil {
		sched.access(site, varID, write, false, field)
	}
}

// VarNames is filled by the generated code: names of the package-level variables by id.
var VarNames []string

// StaticWriteSites is filled by the generated code: for each variable the number of write sites
// outside package initialisation.
var StaticWriteSites []int

// AccRecv reports an access through a method receiver: if the receiver is (the address or the pointer value
// of) one of the candidate package-level variables, it is an access to that variable - made at the statement
// that touches the object, inside whatever critical section the method has entered.
func AccRecv(site int, recv any, write bool, field string, cands ...int) {
	if sched == nil || len(StateVars) == 0 {
		return
	}
	rp := reflect.ValueOf(recv)
	if rp.Kind() != reflect.Ptr || rp.IsNil() {
		return
	}
	for _, id := range cands {
		sv := stateVarByID(id)
		if sv == nil {
			continue
		}
		pv := reflect.ValueOf(sv.Ptr) // pointer to the variable
		if pv.Pointer() == rp.Pointer() {
			sched.access(site, id, write, false, field)
			return
		}
		if ev := pv.Elem(); ev.Kind() == reflect.Ptr && !ev.IsNil() && ev.Pointer() == rp.Pointer() {
			sched.access(site, id, write, true, field)
			return
		}
	}
}

var stateVarIdx map[string]*StateVar

func stateVarByID(id int) *StateVar {
	if id < 0 || id >= len(VarNames) {
		return nil
	}
	if stateVarIdx == nil {
		stateVarIdx = map[string]*StateVar{}
		for i := range StateVars {
			stateVarIdx[StateVars[i].Name] = &StateVars[i]
		}
	}
	return stateVarIdx[VarNames[id]]
}

// CatAssign charges `s += x` by the size of the resulting string and returns x.
func CatAssign(s, x string) string {
	charge(int64(len(s)+len(x)) + 1)
	return x
}

// SpreadB / SpreadS charge append(dst, src...) and copy(dst, src) by the bytes moved.
func SpreadB(b []byte) []byte {
	charge(int64(len(b)) + 1)
	return b
}

func SpreadS(s string) string {
	charge(int64(len(s)) + 1)
	return s
}

// KV is one map entry handed out by SortedMap.
type KV struct{ K, V interface{} }
