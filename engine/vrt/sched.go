package vrt

import (
	"fmt"
	"runtime/debug"
	"sort"
)

// Point kinds.
const (
	pointStart = iota
	pointAccess
	pointSync
	pointEnter
	pointLoop
	pointSpawn
)

var pointKindNames = []string{"start", "access", "sync", "enter", "loop", "spawn"}

// Config selects which instrumented operations are scheduling points.
type Config struct {
	AtWrittenVarAccess bool // accesses to package-level variables that have (static or observed) writers
	AtEveryVarAccess   bool // every access to a package-level variable
	AtEnter            bool // every function entry
	AtLoop             bool // every loop iteration
	MaxPoints          int  // horizon: an execution with more points is cut (reported, never a violation by itself)
}

// Point is one scheduling decision that was offered.
type Point struct {
	Kind    int
	ID      int
	Running int   // thread that reached the point (-1 at start)
	Enabled []int // canonical order: the running thread first if it is still enabled, then ascending ids
	Choice  int   // index into Enabled that was taken
	RunningStillEnabled bool
}

// Race is an unordered conflicting pair of accesses to a package-level variable or pooled object.
type Race struct {
	Var            string
	SiteA, SiteB   int
	ThreadA, ThreadB int
	WriteA, WriteB bool
}

func (r Race) String() string {
	k := func(w bool) string {
		if w {
			return "write"
		}
		return "read"
	}
	return fmt.Sprintf("data race on %s: %s by thread %d (site %d) unordered with %s by thread %d (site %d)", r.Var, k(r.WriteA), r.ThreadA, r.SiteA, k(r.WriteB), r.ThreadB, r.SiteB)
}

// Execution is the record of one complete run under the scheduler.
type Execution struct {
	Points    []Point
	Choices   []int
	Races     []Race
	Deadlock  bool
	Cut       bool // horizon reached
	Diverged  string
	Panics    map[int]string // thread -> panic text
	Accesses  int
	SyncOps   int
}

type vclock []int

func (a vclock) join(b vclock) vclock {
	for len(a) < len(b) {
		a = append(a, 0)
	}
	for i, v := range b {
		if v > a[i] {
			a[i] = v
		}
	}
	return a
}

func (a vclock) copy() vclock { return append(vclock(nil), a...) }

func (a vclock) get(i int) int {
	if i < len(a) {
		return a[i]
	}
	return 0
}

type thread struct {
	id      int
	wake    chan struct{}
	done    bool
	blocked any // sync object the thread waits for
	vc      vclock
	body    func()
}

type epoch struct{ tid, clk, site int }

type varState struct {
	lastWrite epoch
	hasWrite  bool
	reads     map[int]epoch // tid -> epoch of last read
}

type scheduler struct {
	cfg      Config
	threads  []*thread
	cur      *thread
	choose   func(p *Point) int
	exec     *Execution
	vars     map[int]*varState
	observedWritten map[int]bool
	finished chan struct{}
	aborted  bool
}

var sched *scheduler

// observedWriters persists over executions: variables seen written at run time become scheduling points.
var observedWriters = map[int]bool{}

type abortExecution struct{}

// Run executes the thread bodies under the controlled scheduler. choose is called at every point
// with more than zero enabled threads and returns the index (into p.Enabled) to run next.
func Run(cfg Config, bodies []func(), choose func(p *Point) int) *Execution {
	if cfg.MaxPoints == 0 {
		cfg.MaxPoints = 200000
	}
	s := &scheduler{cfg: cfg, choose: choose, exec: &Execution{Panics: map[int]string{}}, vars: map[int]*varState{}, finished: make(chan struct{})}
	for i, b := range bodies {
		t := &thread{id: i, wake: make(chan struct{}), body: b}
		t.vc = make(vclock, len(bodies))
		t.vc[i] = 1
		s.threads = append(s.threads, t)
	}
	work, depth, maxDepth, budget, depthLimit = 0, 0, 0, 0, 0
	sched = s
	for _, t := range s.threads {
		go s.threadMain(t)
	}
	// initial decision: which thread starts
	first := s.decide(pointStart, 0, nil)
	if first != nil {
		first.wake <- struct{}{}
		<-s.finished
	}
	sched = nil
	return s.exec
}

func (s *scheduler) threadMain(t *thread) {
	<-t.wake
	s.cur = t
	func() {
		defer func() {
			if r := recover(); r != nil {
				if _, ok := r.(abortExecution); ok {
					return
				}
				s.exec.Panics[t.id] = fmt.Sprintf("%v\n%s", r, debug.Stack())
			}
		}()
		if !s.aborted {
			t.body()
		}
	}()
	t.done = true
	// the finished thread hands the processor on; if nobody can run the execution is over
	s.handOff(t, pointSync, -1, true)
}

func (s *scheduler) enabled(running *thread) []int {
	var ids []int
	for _, t := range s.threads {
		if !t.done && t.blocked == nil {
			ids = append(ids, t.id)
		}
	}
	sort.Ints(ids)
	if running != nil && !running.done && running.blocked == nil {
		out := []int{running.id}
		for _, id := range ids {
			if id != running.id {
				out = append(out, id)
			}
		}
		return out
	}
	return ids
}

// decide records a point and returns the thread to run next (nil: nobody can run).
func (s *scheduler) decide(kind, id int, running *thread) *thread {
	en := s.enabled(running)
	if len(en) == 0 {
		for _, t := range s.threads {
			if !t.done {
				s.exec.Deadlock = true
			}
		}
		return nil
	}
	p := Point{Kind: kind, ID: id, Running: -1, Enabled: en}
	if running != nil {
		p.Running = running.id
		p.RunningStillEnabled = !running.done && running.blocked == nil
	}
	c := 0
	if len(en) > 1 {
		if len(s.exec.Points) >= s.cfg.MaxPoints {
			s.exec.Cut = true
		} else {
			c = s.choose(&p)
			if c < 0 || c >= len(en) {
				s.exec.Diverged = fmt.Sprintf("choice %d out of range at point %d (%d enabled)", c, len(s.exec.Points), len(en))
				c = 0
			}
			p.Choice = c
			s.exec.Points = append(s.exec.Points, p)
			s.exec.Choices = append(s.exec.Choices, c)
		}
	}
	return s.threads[en[c]]
}

// handOff is called by the running thread t at a scheduling point (or when it blocks / finishes).
func (s *scheduler) handOff(t *thread, kind, id int, final bool) {
	next := s.decide(kind, id, t)
	if next == nil {
		// nobody can run: end of execution (deadlock flag already set when threads remain)
		s.aborted = true
		for _, o := range s.threads {
			if !o.done && o != t {
				o.blocked = nil
				// release blocked goroutines so they can unwind
				go func(o *thread) { o.wake <- struct{}{} }(o)
			}
		}
		if final {
			remaining := 0
			for _, o := range s.threads {
				if !o.done {
					remaining++
				}
			}
			if remaining == 0 {
				close(s.finished)
			}
			return
		}
		panic(abortExecution{})
	}
	if next == t {
		return
	}
	next.wake <- struct{}{}
	if final {
		return
	}
	<-t.wake
	s.cur = t
	if s.aborted {
		panic(abortExecution{})
	}
}

// after an abort every released thread finishes through threadMain; the last one closes finished.
func (s *scheduler) noteDoneAfterAbort() {
	remaining := 0
	for _, o := range s.threads {
		if !o.done {
			remaining++
		}
	}
	if remaining == 0 {
		select {
		case <-s.finished:
		default:
			close(s.finished)
		}
	}
}

func (s *scheduler) point(kind, id int, force bool) {
	t := s.cur
	if t == nil || s.aborted {
		return
	}
	switch kind {
	case pointEnter:
		if !s.cfg.AtEnter {
			return
		}
	case pointLoop:
		if !s.cfg.AtLoop {
			return
		}
	}
	s.handOff(t, kind, id, false)
}

var fieldIDs = map[string]int{}

func (s *scheduler) access(site, varID int, write bool, deref bool, field string) {
	t := s.cur
	if t == nil || s.aborted {
		return
	}
	s.exec.Accesses++
	if write {
		observedWriters[varID] = true
	}
	isPoint := s.cfg.AtEveryVarAccess
	if !isPoint && s.cfg.AtWrittenVarAccess {
		if observedWriters[varID] || (varID < len(StaticWriteSites) && StaticWriteSites[varID] > 0) {
			isPoint = true
		}
	}
	if isPoint {
		s.handOff(t, pointAccess, varID, false)
	}
	key, name := varID, varName(varID)
	if deref {
		// the object a pointer-typed variable points to is a different location than the variable itself
		key, name = key+1<<20, "*"+name
	}
	if field != "" {
		// each struct field is its own location (an immutable field read outside the lock that guards another one)
		fid, ok := fieldIDs[field]
		if !ok {
			fid = len(fieldIDs) + 1
			fieldIDs[field] = fid
		}
		key, name = key+fid<<21, name+"."+field
	}
	s.checkRace(t, site, key, write, name)
}

func varName(id int) string {
	if id >= 0 && id < len(VarNames) {
		return VarNames[id]
	}
	return fmt.Sprintf("object#%d", id)
}

func (s *scheduler) checkRace(t *thread, site, key int, write bool, name string) {
	v := s.vars[key]
	if v == nil {
		v = &varState{reads: map[int]epoch{}}
		s.vars[key] = v
	}
	report := func(e epoch, ew bool) {
		if len(s.exec.Races) < 8 {
			s.exec.Races = append(s.exec.Races, Race{Var: name, SiteA: e.site, SiteB: site, ThreadA: e.tid, ThreadB: t.id, WriteA: ew, WriteB: write})
		}
	}
	if v.hasWrite && v.lastWrite.tid != t.id && v.lastWrite.clk > t.vc.get(v.lastWrite.tid) {
		report(v.lastWrite, true)
	}
	if write {
		for tid, e := range v.reads {
			if tid != t.id && e.clk > t.vc.get(tid) {
				report(e, false)
			}
		}
		v.lastWrite = epoch{t.id, t.vc[t.id], site}
		v.hasWrite = true
		v.reads = map[int]epoch{}
	} else {
		v.reads[t.id] = epoch{t.id, t.vc[t.id], site}
	}
}

// ---- synchronisation support used by the shims -----------------------------------------------

// SyncObj carries the happens-before clock of a synchronisation object.
type SyncObj struct {
	vc vclock
}

// Scheduled reports whether the caller runs under the controlled scheduler.
func Scheduled() bool { return sched != nil && sched.cur != nil && !sched.aborted }

// SyncPoint is a scheduling point before a synchronisation operation.
func SyncPoint(id int) {
	if s := sched; s != nil && s.cur != nil && !s.aborted {
		s.exec.SyncOps++
		s.handOff(s.cur, pointSync, id, false)
	}
}

// Acquire joins the object's clock into the current thread (lock, once-observed, pool get, atomic load).
func Acquire(o *SyncObj) {
	if s := sched; s != nil && s.cur != nil {
		s.cur.vc = s.cur.vc.join(o.vc)
	}
}

// Release publishes the current thread's clock into the object (unlock, once-done, pool put, atomic store).
func Release(o *SyncObj) {
	if s := sched; s != nil && s.cur != nil {
		t := s.cur
		o.vc = o.vc.join(t.vc)
		t.vc[t.id]++
	}
}

// Block parks the current thread until Unblock(obj) is called; it is a forced switch (no preemption).
func Block(obj any) {
	s := sched
	if s == nil || s.cur == nil || s.aborted {
		return
	}
	t := s.cur
	t.blocked = obj
	s.handOff(t, pointSync, -2, false)
}

// Unblock makes every thread waiting on obj runnable again.
func Unblock(obj any) {
	if s := sched; s != nil {
		for _, t := range s.threads {
			if t.blocked == obj {
				t.blocked = nil
			}
		}
	}
}

// ObjAccess feeds the race monitor with an access to a heap object handed out by a pool shim.
func ObjAccess(key int, site int, write bool, name string) {
	if s := sched; s != nil && s.cur != nil && !s.aborted {
		s.checkRace(s.cur, site, key, write, name)
	}
}

// Go starts a library-spawned goroutine as a scheduled thread.
func Go(f func()) {
	s := sched
	if s == nil || s.cur == nil {
		go f()
		return
	}
	parent := s.cur
	t := &thread{id: len(s.threads), wake: make(chan struct{}), body: f}
	t.vc = parent.vc.copy()
	for len(t.vc) <= t.id {
		t.vc = append(t.vc, 0)
	}
	t.vc[t.id] = 1
	parent.vc[parent.id]++
	s.threads = append(s.threads, t)
	go s.threadMain(t)
	s.handOff(parent, pointSpawn, t.id, false)
}

// CurrentThread returns the id of the scheduled thread (-1 outside the scheduler).
func CurrentThread() int {
	if s := sched; s != nil && s.cur != nil {
		return s.cur.id
	}
	return -1
}

// PointKindName names a point kind.
func PointKindName(k int) string { return pointKindNames[k] }
