// Package vstrings replaces "strings" in the instrumented build: same API (the subset a lexer
// uses), each call charged with the number of bytes it may look at.
package vstrings

import (
	"strings"
	"unicode"

	"verif/vrt"
)

type (
	Builder  = strings.Builder
	Reader   = strings.Reader
	Replacer = strings.Replacer
)

func c(n int) { vrt.Charge(n + 1) }

// scanned: bytes a forward search looked at (it stops at the first match).
func scanned(i, n, m int) int {
	if i < 0 {
		return n
	}
	return i + m
}

func scannedBack(i, n int) int {
	if i < 0 {
		return n
	}
	return n - i
}

func Index(s, sub string) int           { i := strings.Index(s, sub); c(scanned(i, len(s), len(sub))); return i }
func IndexByte(s string, b byte) int    { i := strings.IndexByte(s, b); c(scanned(i, len(s), 1)); return i }
func IndexRune(s string, r rune) int    { i := strings.IndexRune(s, r); c(scanned(i, len(s), 1)); return i }
func IndexAny(s, chars string) int      { i := strings.IndexAny(s, chars); c(scanned(i, len(s), 1) + len(chars)); return i }
func IndexFunc(s string, f func(rune) bool) int { i := strings.IndexFunc(s, f); c(scanned(i, len(s), 1)); return i }
func LastIndex(s, sub string) int       { i := strings.LastIndex(s, sub); c(scannedBack(i, len(s)) + len(sub)); return i }
func LastIndexByte(s string, b byte) int { i := strings.LastIndexByte(s, b); c(scannedBack(i, len(s))); return i }
func LastIndexAny(s, chars string) int  { i := strings.LastIndexAny(s, chars); c(scannedBack(i, len(s)) + len(chars)); return i }
func Contains(s, sub string) bool       { return Index(s, sub) >= 0 }
func ContainsRune(s string, r rune) bool { return IndexRune(s, r) >= 0 }
func ContainsAny(s, chars string) bool  { return IndexAny(s, chars) >= 0 }
func Count(s, sub string) int           { c(len(s) + len(sub)); return strings.Count(s, sub) }
func HasPrefix(s, p string) bool        { c(len(p)); return strings.HasPrefix(s, p) }
func HasSuffix(s, p string) bool        { c(len(p)); return strings.HasSuffix(s, p) }
func EqualFold(a, b string) bool        { c(len(a) + len(b)); return strings.EqualFold(a, b) }
func Compare(a, b string) int           { c(len(a) + len(b)); return strings.Compare(a, b) }
func ToUpper(s string) string           { c(len(s)); return strings.ToUpper(s) }
func ToLower(s string) string           { c(len(s)); return strings.ToLower(s) }
func Title(s string) string             { c(len(s)); return strings.Title(s) }
func TrimSpace(s string) string         { c(len(s)); return strings.TrimSpace(s) }
func Trim(s, cut string) string         { c(len(s) + len(cut)); return strings.Trim(s, cut) }
func TrimLeft(s, cut string) string     { r := strings.TrimLeft(s, cut); c(len(s) - len(r) + len(cut)); return r }
func TrimRight(s, cut string) string    { c(len(s) + len(cut)); return strings.TrimRight(s, cut) }
func TrimPrefix(s, p string) string     { c(len(p)); return strings.TrimPrefix(s, p) }
func TrimSuffix(s, p string) string     { c(len(p)); return strings.TrimSuffix(s, p) }
func TrimFunc(s string, f func(rune) bool) string      { c(len(s)); return strings.TrimFunc(s, f) }
func TrimLeftFunc(s string, f func(rune) bool) string  { r := strings.TrimLeftFunc(s, f); c(len(s) - len(r) + 1); return r }
func TrimRightFunc(s string, f func(rune) bool) string { c(len(s)); return strings.TrimRightFunc(s, f) }
func Replace(s, o, n string, k int) string { r := strings.Replace(s, o, n, k); c(len(s) + len(r)); return r }
func ReplaceAll(s, o, n string) string  { r := strings.ReplaceAll(s, o, n); c(len(s) + len(r)); return r }
func Repeat(s string, n int) string     { r := strings.Repeat(s, n); c(len(r)); return r }
func Split(s, sep string) []string      { c(len(s) + len(sep)); return strings.Split(s, sep) }
func SplitN(s, sep string, n int) []string { c(len(s) + len(sep)); return strings.SplitN(s, sep, n) }
func Fields(s string) []string          { c(len(s)); return strings.Fields(s) }
func FieldsFunc(s string, f func(rune) bool) []string { c(len(s)); return strings.FieldsFunc(s, f) }
func Join(a []string, sep string) string { r := strings.Join(a, sep); c(len(r)); return r }
func Map(f func(rune) rune, s string) string { c(len(s)); return strings.Map(f, s) }
func ToValidUTF8(s, r string) string    { c(len(s)); return strings.ToValidUTF8(s, r) }
func Cut(s, sep string) (string, string, bool) { c(len(s) + len(sep)); return strings.Cut(s, sep) }
func Clone(s string) string             { c(len(s)); return strings.Clone(s) }
func NewReader(s string) *Reader        { return strings.NewReader(s) }
func NewReplacer(oldnew ...string) *Replacer { return strings.NewReplacer(oldnew...) }
func ToUpperSpecial(cs unicode.SpecialCase, s string) string { c(len(s)); return strings.ToUpperSpecial(cs, s) }

// the rest of the package's functions (whole-input cost), so that any use of "strings" compiles in the instrumented build
func ContainsFunc(s string, f func(rune) bool) bool { c(len(s)); return strings.ContainsFunc(s, f) }
func CutPrefix(s, prefix string) (string, bool)     { c(len(prefix)); return strings.CutPrefix(s, prefix) }
func CutSuffix(s, suffix string) (string, bool)     { c(len(suffix)); return strings.CutSuffix(s, suffix) }
func LastIndexFunc(s string, f func(rune) bool) int {
	i := strings.LastIndexFunc(s, f)
	c(scannedBack(i, len(s)))
	return i
}
func SplitAfter(s, sep string) []string         { c(len(s)); return strings.SplitAfter(s, sep) }
func SplitAfterN(s, sep string, n int) []string { c(len(s)); return strings.SplitAfterN(s, sep, n) }
func ToLowerSpecial(cs unicode.SpecialCase, s string) string {
	c(len(s))
	return strings.ToLowerSpecial(cs, s)
}
func ToTitle(s string) string { c(len(s)); return strings.ToTitle(s) }
func ToTitleSpecial(cs unicode.SpecialCase, s string) string {
	c(len(s))
	return strings.ToTitleSpecial(cs, s)
}
