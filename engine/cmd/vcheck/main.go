// vcheck runs one property check: driver mode spawns sharded worker processes of itself.
package main

import (
	"encoding/json"
	"flag"
	"fmt"
	"os"
	"sort"
	"strconv"
	"time"

	"verif/alpha"
	"verif/fw"
	"verif/props"
)

func main() {
	var (
		prop    = flag.String("prop", "", "property id")
		tier    = flag.String("tier", "", "quick|thorough")
		worker  = flag.Bool("worker", false, "worker mode")
		shard   = flag.Int("shard", 0, "")
		nshards = flag.Int("nshards", 1, "")
		seed    = flag.Int64("seed", 0, "")
		budget  = flag.Int("budget", 40, "seconds")
		journal = flag.String("journal", "", "")
		phase   = flag.String("phase", "", "run only this phase")
		replay  = flag.String("replay", "", "replay a violation file")
		asJSON  = flag.Bool("json", false, "")
		nw      = flag.Int("workers", 0, "")
		list    = flag.Bool("list", false, "")
		oneshot = flag.String("oneshot", "", "evaluate hex-encoded C05 ops in this fresh process")
	)
	flag.Parse()
	if *tier == "" {
		*tier = os.Getenv("VERIF_TIER")
		if *tier == "" {
			*tier = "quick"
		}
	}
	if *seed == 0 {
		if v := os.Getenv("VERIF_SEED"); v != "" {
			if n, err := strconv.ParseInt(v, 10, 64); err == nil {
				*seed = n
			}
		}
	}
	if os.Getenv("VERIF_CALIB") == "C03" {
		props.C03Calibrate()
		return
	}
	if os.Getenv("VERIF_CALIB") == "literals" {
		if err := alpha.DumpBaseline(); err != nil {
			fmt.Fprintln(os.Stderr, err)
			os.Exit(2)
		}
		return
	}
	if os.Getenv("VERIF_CALIB") == "C14" {
		props.C14Calibrate()
		return
	}
	if os.Getenv("VERIF_CALIB") == "baseline" {
		props.C20DumpBaseline()
		return
	}
	if os.Getenv("VERIF_CALIB") == "C04" {
		props.C04Calibrate()
		return
	}
	if *list {
		ids := fw.IDs()
		sort.Strings(ids)
		if *asJSON {
			type ph struct {
				Name         string `json:"name"`
				Space        string `json:"space"`
				ThoroughOnly bool   `json:"thorough_only,omitempty"`
			}
			out := map[string][]ph{}
			for _, id := range ids {
				for _, p := range fw.Lookup(id).Phases {
					out[id] = append(out[id], ph{p.Name, p.Space, p.ThoroughOnly})
				}
			}
			b, _ := json.MarshalIndent(out, "", " ")
			fmt.Println(string(b))
			return
		}
		for _, id := range ids {
			fmt.Println(id)
		}
		return
	}
	if *oneshot != "" {
		props.C05Oneshot(*oneshot)
		return
	}
	if *replay != "" {
		os.Exit(fw.ReplayFile(*replay, *tier, *asJSON))
	}
	c := fw.Lookup(*prop)
	if c == nil {
		fmt.Fprintln(os.Stderr, "unknown property", *prop)
		os.Exit(2)
	}
	if *worker {
		fw.RunWorker(c, *tier, *shard, *nshards, *seed, time.Duration(*budget)*time.Second, *journal, *phase)
		return
	}
	os.Exit(fw.Drive(c, *tier, *seed, *nw, *phase))
}
