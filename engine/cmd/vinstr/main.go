// vinstr auto-instruments the CURRENT working tree of the library under test and writes a
// `go build -overlay` description: every function entry, loop iteration, string-library call,
// concatenation / conversion and every access to a package-level variable reports to verif/vrt;
// "strings", "bytes", "sync", "sync/atomic" are redirected to shims; `go f()` becomes vrt.Go.
// Constructs it cannot own (select, time, math/rand, range over a map, cgo, unsafe outside the
// hooks file) are reported and make it exit non-zero.
package main

import (
	"bytes"
	"encoding/json"
	"flag"
	"fmt"
	"go/ast"
	"go/build"
	"go/format"
	"go/importer"
	"go/parser"
	"go/token"
	"go/types"
	"os"
	"path/filepath"
	"sort"
	"strconv"
	"strings"

	"golang.org/x/tools/go/ast/astutil"
)

var shimImports = map[string]string{
	"strings":     "verif/vrt/vstrings",
	"bytes":       "verif/vrt/vbytes",
	"sync":        "verif/vrt/vsync",
	"sync/atomic": "verif/vrt/vatomic",
}

var forbiddenImports = map[string]string{
	"time":         "wall-clock time",
	"math/rand":    "randomness",
	"math/rand/v2": "randomness",
	"crypto/rand":  "randomness",
	"os":           "environment / I/O",
	"C":            "cgo",
}

type site struct {
	File string `json:"file"`
	Line int    `json:"line"`
	Var  string `json:"var"`
	Kind string `json:"kind"`
}

func main() {
	repo := flag.String("repo", "/repo", "library source directory")
	out := flag.String("out", "", "output directory for instrumented files and overlay.json")
	flag.Parse()
	if *out == "" {
		fmt.Fprintln(os.Stderr, "vinstr: -out required")
		os.Exit(2)
	}
	if err := run(*repo, *out); err != nil {
		fmt.Fprintln(os.Stderr, "vinstr:", err)
		os.Exit(2)
	}
}

func run(repo, out string) error {
	if err := os.MkdirAll(out, 0o755); err != nil {
		return err
	}
	ctx := build.Default
	ctx.BuildTags = append(ctx.BuildTags, "verif")
	ents, err := os.ReadDir(repo)
	if err != nil {
		return err
	}
	fset := token.NewFileSet()
	var files []*ast.File
	var names []string
	for _, e := range ents {
		n := e.Name()
		if e.IsDir() || !strings.HasSuffix(n, ".go") || strings.HasSuffix(n, "_test.go") {
			continue
		}
		ok, err := ctx.MatchFile(repo, n)
		if err != nil || !ok {
			continue
		}
		f, err := parser.ParseFile(fset, filepath.Join(repo, n), nil, parser.ParseComments)
		if err != nil {
			return err
		}
		files = append(files, f)
		names = append(names, n)
	}
	if len(files) == 0 {
		return fmt.Errorf("no Go files in %s", repo)
	}
	info := &types.Info{Uses: map[*ast.Ident]types.Object{}, Defs: map[*ast.Ident]types.Object{}, Types: map[ast.Expr]types.TypeAndValue{}, Selections: map[*ast.SelectorExpr]*types.Selection{}}
	conf := types.Config{Importer: importer.ForCompiler(fset, "source", nil), Error: func(err error) {}}
	pkg, err := conf.Check(files[0].Name.Name, fset, files, info)
	if err != nil {
		return fmt.Errorf("type check: %v", err)
	}

	// package-level variables, in a stable order
	var pkgVars []*types.Var
	varID := map[*types.Var]int{}
	scope := pkg.Scope()
	vnames := scope.Names()
	sort.Strings(vnames)
	for _, n := range vnames {
		if v, ok := scope.Lookup(n).(*types.Var); ok {
			varID[v] = len(pkgVars)
			pkgVars = append(pkgVars, v)
		}
	}
	staticWrites := make([]int, len(pkgVars))
	var sites []site
	var problems []string

	overlay := map[string]string{}
	for i, f := range files {
		name := names[i]
		if name == "verif_hooks.go" {
			continue // the harness' own accessors are not part of the code under test
		}
		in := &instr{fset: fset, info: info, varID: varID, pkgVars: pkgVars, file: name, staticWrites: staticWrites, pkgPath: pkg.Path()}
		in.rewrite(f)
		sites = append(sites, in.sites...)
		problems = append(problems, in.problems...)
		var buf bytes.Buffer
		if err := format.Node(&buf, fset, f); err != nil {
			return fmt.Errorf("%s: %v", name, err)
		}
		dst := filepath.Join(out, name)
		if err := os.WriteFile(dst, buf.Bytes(), 0o644); err != nil {
			return err
		}
		overlay[filepath.Join(repo, name)] = dst
	}
	// generated file: variable names, static write sites, digest and snapshot/restore of package state
	gen := genState(files[0].Name.Name, pkgVars, staticWrites)
	dst := filepath.Join(out, "verif_state_gen.go")
	if err := os.WriteFile(dst, []byte(gen), 0o644); err != nil {
		return err
	}
	overlay[filepath.Join(repo, "verif_state_gen.go")] = dst

	ov, _ := json.MarshalIndent(map[string]any{"Replace": overlay}, "", " ")
	if err := os.WriteFile(filepath.Join(out, "overlay.json"), ov, 0o644); err != nil {
		return err
	}
	rep := map[string]any{"package_level_vars": len(pkgVars), "access_sites": sites, "static_write_sites": staticWrites, "problems": problems}
	rb, _ := json.MarshalIndent(rep, "", " ")
	os.WriteFile(filepath.Join(out, "report.json"), rb, 0o644)
	if len(problems) > 0 {
		return fmt.Errorf("nondeterminism not owned by the instrumenter:\n  %s", strings.Join(problems, "\n  "))
	}
	return nil
}

type instr struct {
	fset         *token.FileSet
	info         *types.Info
	varID        map[*types.Var]int
	pkgVars      []*types.Var
	file         string
	sites        []site
	problems     []string
	staticWrites []int
	nfuncs       int
	inInit       bool
	pkgPath      string
	recvObj      types.Object // receiver of the method being instrumented, when package-level variables of its type exist
	recvCands    []int        // those variables
}

func (in *instr) problem(pos token.Pos, msg string) {
	p := in.fset.Position(pos)
	in.problems = append(in.problems, fmt.Sprintf("%s:%d: %s", in.file, p.Line, msg))
}

func vrtCall(fn string, args ...ast.Expr) *ast.CallExpr {
	return &ast.CallExpr{Fun: &ast.SelectorExpr{X: ast.NewIdent("vrt"), Sel: ast.NewIdent(fn)}, Args: args}
}

func lit(n int) ast.Expr { return &ast.BasicLit{Kind: token.INT, Value: strconv.Itoa(n)} }

func boolLit(b bool) ast.Expr {
	if b {
		return ast.NewIdent("true")
	}
	return ast.NewIdent("false")
}

// pkgVarOf resolves an identifier to a package-level variable of this package.
func (in *instr) pkgVarOf(id *ast.Ident) (int, bool) {
	if obj, ok := in.info.Uses[id].(*types.Var); ok {
		if i, ok := in.varID[obj]; ok {
			return i, true
		}
	}
	return 0, false
}

// rootIdent returns the identifier at the root of an addressable expression (a.b[i].c -> a).
func rootIdent(e ast.Expr) *ast.Ident {
	for {
		switch x := e.(type) {
		case *ast.Ident:
			return x
		case *ast.SelectorExpr:
			e = x.X
		case *ast.IndexExpr:
			e = x.X
		case *ast.SliceExpr:
			e = x.X
		case *ast.StarExpr:
			e = x.X
		case *ast.ParenExpr:
			e = x.X
		default:
			return nil
		}
	}
}

type access struct {
	id    int
	write bool
	pos   token.Pos
	recv  *ast.Ident // access through the method receiver (resolved to a package-level object at run time)
	field string     // first struct field selected from the variable / receiver ("" = the value as a whole)
}

// accessesIn collects package-level variable accesses in the "header" of a statement: everything
// that is evaluated when the statement itself executes, not the nested blocks.
func (in *instr) accessesIn(n ast.Node, writes map[*ast.Ident]bool) []access {
	var out []access
	if n == nil {
		return nil
	}
	// identifiers whose ADDRESS is taken, not their value: &v, and v.m() with a pointer-receiver method on an
	// addressable (non-pointer) v. Nothing is read at that point; the object is accessed where it is touched.
	addrOnly := map[*ast.Ident]bool{}
	fieldOf := map[*ast.Ident]string{} // v.f..., (*v).f... : the struct field the access goes to
	ast.Inspect(n, func(x ast.Node) bool {
		switch t := x.(type) {
		case *ast.BlockStmt, *ast.FuncLit:
			return false
		case *ast.SelectorExpr:
			if sel := in.info.Selections[t]; sel != nil {
				base := t.X
				for {
					if p, ok := base.(*ast.ParenExpr); ok {
						base = p.X
						continue
					}
					if st, ok := base.(*ast.StarExpr); ok {
						base = st.X
						continue
					}
					break
				}
				if id, ok := base.(*ast.Ident); ok {
					switch sel.Kind() {
					case types.FieldVal:
						fieldOf[id] = t.Sel.Name
					case types.MethodVal:
						// calling a method of this package on the object is not a data access here: the method reports its own
						if fn, ok := sel.Obj().(*types.Func); ok && fn.Pkg() != nil && fn.Pkg().Path() == in.pkgPath {
							if _, isRecv := in.info.Uses[id].(*types.Var); isRecv && in.recvObj != nil && in.info.Uses[id] == in.recvObj {
								addrOnly[id] = true
							}
						}
					}
				}
			}
		case *ast.UnaryExpr:
			if t.Op == token.AND {
				if id := rootIdent(t.X); id != nil {
					addrOnly[id] = true
				}
			}
		case *ast.CallExpr:
			if sel, ok := t.Fun.(*ast.SelectorExpr); ok {
				if s := in.info.Selections[sel]; s != nil && s.Kind() == types.MethodVal {
					if sig, ok := s.Obj().Type().(*types.Signature); ok && sig.Recv() != nil {
						if _, ptr := sig.Recv().Type().(*types.Pointer); ptr {
							if tv, ok := in.info.Types[sel.X]; ok {
								if _, isPtr := tv.Type.Underlying().(*types.Pointer); !isPtr {
									if id := rootIdent(sel.X); id != nil {
										addrOnly[id] = true
									}
								}
							}
						}
					}
				}
			}
		}
		return true
	})
	ast.Inspect(n, func(x ast.Node) bool {
		switch t := x.(type) {
		case *ast.BlockStmt, *ast.FuncLit:
			return false
		case *ast.SelectorExpr:
			// x.mu where mu is a synchronisation object (a shim type with its own clock): using it is not a data access to x
			if tv, ok := in.info.Types[t]; ok && isShimType(tv.Type) {
				return false
			}
		case *ast.Ident:
			if addrOnly[t] && !writes[t] {
				return true
			}
			if id, ok := in.pkgVarOf(t); ok {
				out = append(out, access{id, writes[t], t.Pos(), nil, fieldOf[t]})
			} else if in.recvObj != nil && in.info.Uses[t] == in.recvObj {
				out = append(out, access{-1, writes[t], t.Pos(), t, fieldOf[t]})
			}
		}
		return true
	})
	return out
}

func (in *instr) writeRoots(s ast.Stmt) map[*ast.Ident]bool {
	w := map[*ast.Ident]bool{}
	mark := func(e ast.Expr) {
		if id := rootIdent(e); id != nil {
			w[id] = true
		}
	}
	switch t := s.(type) {
	case *ast.AssignStmt:
		if t.Tok != token.DEFINE {
			for _, l := range t.Lhs {
				mark(l)
			}
		}
	case *ast.IncDecStmt:
		mark(t.X)
	case *ast.RangeStmt:
		if t.Tok == token.ASSIGN {
			if t.Key != nil {
				mark(t.Key)
			}
			if t.Value != nil {
				mark(t.Value)
			}
		}
	}
	// calls that write through their first argument or receiver
	ast.Inspect(s, func(x ast.Node) bool {
		switch c := x.(type) {
		case *ast.BlockStmt, *ast.FuncLit:
			return false
		case *ast.CallExpr:
			if f, ok := c.Fun.(*ast.Ident); ok && (f.Name == "copy" || f.Name == "delete" || f.Name == "clear") && len(c.Args) > 0 {
				if _, isBuiltin := in.info.Uses[f].(*types.Builtin); isBuiltin {
					mark(c.Args[0])
				}
			}
			// A pointer-receiver method called on a package-level variable only READS the variable at the call
			// site; what it does to the object is reported from inside the method (AccRecv), at the statement
			// that does it - i.e. after whatever lock the method takes. Methods of other packages cannot be
			// instrumented: those calls stay conservative writes, unless the type is a shim (own clocks).
			if sel, ok := c.Fun.(*ast.SelectorExpr); ok {
				if s := in.info.Selections[sel]; s != nil && s.Kind() == types.MethodVal {
					if fn, ok := s.Obj().(*types.Func); ok {
						if sig, ok := fn.Type().(*types.Signature); ok && sig.Recv() != nil {
							if _, ptr := sig.Recv().Type().(*types.Pointer); ptr {
								if p := fn.Pkg(); p != nil && p.Path() != in.pkgPath && !isShimmed(p.Path()) {
									mark(sel.X)
								}
							}
						}
					}
				}
			}
		}
		return true
	})
	return w
}

func isShimType(t types.Type) bool {
	if p, ok := t.(*types.Pointer); ok {
		t = p.Elem()
	}
	if n, ok := t.(*types.Named); ok && n.Obj() != nil && n.Obj().Pkg() != nil {
		return isShimmed(n.Obj().Pkg().Path())
	}
	return false
}

func isShimmed(path string) bool {
	_, ok := shimImports[path]
	return ok
}

func (in *instr) accStmts(acc []access) []ast.Stmt {
	var out []ast.Stmt
	type akey struct {
		id, wi int
		field  string
	}
	seen := map[akey]bool{}
	for _, a := range acc {
		wi := 0
		if a.write {
			wi = 1
		}
		k := akey{a.id, wi, a.field}
		if seen[k] {
			continue
		}
		seen[k] = true
		if a.recv != nil {
			p := in.fset.Position(a.pos)
			rk := "read-through-receiver"
			if a.write {
				rk = "write-through-receiver"
				if !in.inInit {
					for _, c := range in.recvCands {
						in.staticWrites[c]++
					}
				}
			}
			in.sites = append(in.sites, site{in.file, p.Line, a.recv.Name, rk})
			siteID := len(in.sites) + 1000*fileOrdinal(in.file)
			args := []ast.Expr{lit(siteID), ast.NewIdent(a.recv.Name), boolLit(a.write), &ast.BasicLit{Kind: token.STRING, Value: strconv.Quote(a.field)}}
			for _, c := range in.recvCands {
				args = append(args, lit(c))
			}
			out = append(out, &ast.ExprStmt{X: vrtCall("AccRecv", args...)})
			continue
		}
		kind := "read"
		if a.write {
			kind = "write"
			if !in.inInit {
				in.staticWrites[a.id]++
			}
		}
		p := in.fset.Position(a.pos)
		in.sites = append(in.sites, site{in.file, p.Line, in.pkgVars[a.id].Name(), kind})
		siteID := len(in.sites) + 1000*fileOrdinal(in.file)
		if a.field != "" {
			out = append(out, &ast.ExprStmt{X: vrtCall("AccF", lit(siteID), lit(a.id), boolLit(a.write), &ast.BasicLit{Kind: token.STRING, Value: strconv.Quote(a.field)})})
		} else {
			out = append(out, &ast.ExprStmt{X: vrtCall("Acc", lit(siteID), lit(a.id), boolLit(a.write))})
		}
	}
	return out
}

func fileOrdinal(name string) int {
	h := 0
	for _, c := range name {
		h = (h*31 + int(c)) % 900
	}
	return h + 1
}

// headerOf returns the parts of a statement evaluated when the statement executes.
func headerOf(s ast.Stmt) []ast.Node {
	switch t := s.(type) {
	case *ast.IfStmt:
		return []ast.Node{t.Init, t.Cond}
	case *ast.ForStmt:
		return []ast.Node{t.Init, t.Cond, t.Post}
	case *ast.RangeStmt:
		return []ast.Node{t.Key, t.Value, t.X}
	case *ast.SwitchStmt:
		return []ast.Node{t.Init, t.Tag}
	case *ast.TypeSwitchStmt:
		return []ast.Node{t.Init, t.Assign}
	case *ast.BlockStmt, *ast.LabeledStmt, *ast.CaseClause, *ast.CommClause, *ast.SelectStmt:
		return nil
	default:
		return []ast.Node{s}
	}
}

func nonNil(ns []ast.Node) []ast.Node {
	var out []ast.Node
	for _, n := range ns {
		if n != nil && !isNilNode(n) {
			out = append(out, n)
		}
	}
	return out
}

func isNilNode(n ast.Node) bool {
	switch t := n.(type) {
	case ast.Stmt:
		return t == nil
	case ast.Expr:
		return t == nil
	}
	return false
}

// instrumentList inserts access events before each statement of a statement list.
func (in *instr) instrumentList(list []ast.Stmt) []ast.Stmt {
	var out []ast.Stmt
	for _, s := range list {
		writes := in.writeRoots(s)
		var acc []access
		for _, h := range headerOf(s) {
			if h == nil {
				continue
			}
			switch v := h.(type) {
			case ast.Expr:
				if v == nil {
					continue
				}
			case ast.Stmt:
				if v == nil {
					continue
				}
			}
			acc = append(acc, in.accessesIn(h, writes)...)
		}
		pre := in.accStmts(acc)
		// case clauses: their expressions are evaluated by the enclosing switch
		out = append(out, pre...)
		// loop headers are re-evaluated on every iteration
		switch t := s.(type) {
		case *ast.ForStmt:
			if len(pre) > 0 {
				t.Body.List = append(append([]ast.Stmt{}, pre...), t.Body.List...)
			}
		}
		out = append(out, s)
	}
	return out
}

func (in *instr) rewrite(f *ast.File) {
	// imports
	for _, imp := range f.Imports {
		path, _ := strconv.Unquote(imp.Path.Value)
		if why, bad := forbiddenImports[path]; bad {
			in.problem(imp.Pos(), "import of "+path+" ("+why+")")
		}
		// package unsafe is let through: views it creates are ordinary values for the scheduler, and state that
		// is reachable only through unsafe pointers is outside the digest (stated in the check's assumptions)
		if shim, ok := shimImports[path]; ok {
			base := path[strings.LastIndex(path, "/")+1:]
			if imp.Name == nil {
				imp.Name = ast.NewIdent(base)
			}
			imp.Path.Value = strconv.Quote(shim)
		}
	}
	astutil.AddNamedImport(in.fset, f, "vrt", "verif/vrt")

	// expression-level rewrites and statement-level problems
	astutil.Apply(f, nil, func(c *astutil.Cursor) bool {
		switch n := c.Node().(type) {
		case *ast.SelectStmt:
			in.problem(n.Pos(), "select statement")
		case *ast.RangeStmt:
			if tv, ok := in.info.Types[n.X]; ok {
				if mt, isMap := tv.Type.Underlying().(*types.Map); isMap {
					// own the iteration order: iterate over the entries sorted by key (one canonical order)
					if !in.rewriteMapRange(n, mt) {
						in.problem(n.Pos(), "range over a map whose key/value types the instrumenter cannot name (iteration order)")
					}
				}
			}
		case *ast.AssignStmt:
			// s += x on strings: charge the size of the result (repeated += is the classic quadratic build)
			if n.Tok == token.ADD_ASSIGN && len(n.Lhs) == 1 {
				if tv, ok := in.info.Types[n.Lhs[0]]; ok && isString(tv.Type.Underlying()) {
					n.Rhs[0] = vrtCall("CatAssign", n.Lhs[0], n.Rhs[0])
				}
			}
		case *ast.GoStmt:
			// go f(x) -> vrt.Go(func() { f(x) })
			c.Replace(&ast.ExprStmt{X: vrtCall("Go", &ast.FuncLit{Type: &ast.FuncType{Params: &ast.FieldList{}}, Body: &ast.BlockStmt{List: []ast.Stmt{&ast.ExprStmt{X: n.Call}}}})})
		case *ast.BinaryExpr:
			if n.Op == token.ADD {
				if tv, ok := in.info.Types[n]; ok && tv.Value == nil {
					if b, ok := tv.Type.Underlying().(*types.Basic); ok && b.Info()&types.IsString != 0 {
						if _, parentIsConcat := c.Parent().(*ast.BinaryExpr); !parentIsConcat {
							c.Replace(wrapTyped(tv.Type, in, vrtCall("Cat", n)))
						}
					}
				}
			}
		case *ast.CallExpr:
			if f, ok := n.Fun.(*ast.Ident); ok {
				if _, isBuiltin := in.info.Uses[f].(*types.Builtin); isBuiltin {
					if f.Name == "append" && n.Ellipsis.IsValid() && len(n.Args) == 2 {
						if at, ok := in.info.Types[n.Args[1]]; ok {
							if isByteSlice(at.Type.Underlying()) {
								n.Args[1] = vrtCall("SpreadB", n.Args[1])
							} else if isString(at.Type.Underlying()) {
								n.Args[1] = vrtCall("SpreadS", n.Args[1])
							}
						}
					}
					if f.Name == "copy" && len(n.Args) == 2 {
						if at, ok := in.info.Types[n.Args[1]]; ok {
							if isByteSlice(at.Type.Underlying()) {
								n.Args[1] = vrtCall("SpreadB", n.Args[1])
							} else if isString(at.Type.Underlying()) {
								n.Args[1] = vrtCall("SpreadS", n.Args[1])
							}
						}
					}
				}
			}
			if len(n.Args) == 1 {
				if tv, ok := in.info.Types[n.Fun]; ok && tv.IsType() {
					if at, ok := in.info.Types[n.Args[0]]; ok && at.Value == nil {
						to, from := tv.Type.Underlying(), at.Type.Underlying()
						if isString(to) && isByteSlice(from) {
							c.Replace(wrapTyped(tv.Type, in, vrtCall("ConvS", n)))
						} else if isByteSlice(to) && isString(from) {
							c.Replace(vrtCall("ConvB", n))
						}
					}
				}
			}
		}
		return true
	})

	// statement lists: access events; loops: ticks; functions: enter/exit
	ast.Inspect(f, func(x ast.Node) bool {
		switch n := x.(type) {
		case *ast.FuncDecl:
			in.inInit = n.Name.Name == "init" && n.Recv == nil
		}
		return true
	})
	for _, d := range f.Decls {
		fd, ok := d.(*ast.FuncDecl)
		if !ok || fd.Body == nil {
			continue
		}
		in.inInit = fd.Name.Name == "init" && fd.Recv == nil
		in.recvObj, in.recvCands = nil, nil
		if fd.Recv != nil && len(fd.Recv.List) == 1 && len(fd.Recv.List[0].Names) == 1 && fd.Recv.List[0].Names[0].Name != "_" {
			if obj := in.info.Defs[fd.Recv.List[0].Names[0]]; obj != nil {
				if pt, ok := obj.Type().(*types.Pointer); ok {
					for i, v := range in.pkgVars {
						vt := v.Type()
						if p2, ok := vt.(*types.Pointer); ok {
							vt = p2.Elem()
						}
						if types.Identical(vt, pt.Elem()) {
							in.recvCands = append(in.recvCands, i)
						}
					}
					if len(in.recvCands) > 0 {
						in.recvObj = obj
					}
				}
			}
		}
		in.walkBlocks(fd.Body)
		in.nfuncs++
		id := in.nfuncs + 1000*fileOrdinal(in.file)
		enter := []ast.Stmt{
			&ast.ExprStmt{X: vrtCall("Enter", lit(id))},
			&ast.DeferStmt{Call: vrtCall("Exit")},
		}
		fd.Body.List = append(enter, fd.Body.List...)
	}
	uses := false
	ast.Inspect(f, func(x ast.Node) bool {
		if sel, ok := x.(*ast.SelectorExpr); ok {
			if id, ok := sel.X.(*ast.Ident); ok && id.Name == "vrt" {
				uses = true
			}
		}
		return !uses
	})
	if !uses {
		astutil.DeleteNamedImport(in.fset, f, "vrt", "verif/vrt")
	}
}

// rewriteMapRange turns `for k, v := range m` into a loop over vrt.SortedMap(m).
func (in *instr) rewriteMapRange(n *ast.RangeStmt, mt *types.Map) bool {
	qual := func(p *types.Package) string {
		if p == nil || p.Path() == in.pkgPath {
			return ""
		}
		return p.Name()
	}
	texpr := func(t types.Type) ast.Expr {
		e, err := parser.ParseExpr(types.TypeString(t, qual))
		if err != nil {
			return nil
		}
		return e
	}
	kt, vt := texpr(mt.Key()), texpr(mt.Elem())
	if kt == nil || vt == nil {
		return false
	}
	tok := n.Tok
	if tok != token.DEFINE && tok != token.ASSIGN {
		tok = token.DEFINE
	}
	var pre []ast.Stmt
	bind := func(target ast.Expr, field string, t ast.Expr) {
		if target == nil {
			return
		}
		if id, ok := target.(*ast.Ident); ok && id.Name == "_" {
			return
		}
		val := &ast.TypeAssertExpr{X: &ast.SelectorExpr{X: ast.NewIdent("kv__"), Sel: ast.NewIdent(field)}, Type: t}
		pre = append(pre, &ast.AssignStmt{Lhs: []ast.Expr{target}, Tok: tok, Rhs: []ast.Expr{val}})
	}
	bind(n.Key, "K", kt)
	bind(n.Value, "V", vt)
	n.X = vrtCall("SortedMap", n.X)
	n.Key = ast.NewIdent("_")
	n.Value = ast.NewIdent("kv__")
	n.Tok = token.DEFINE
	n.Body.List = append(pre, n.Body.List...)
	return true
}

func wrapTyped(t types.Type, in *instr, call *ast.CallExpr) ast.Expr {
	// vrt.Cat returns plain string; a named string type needs a conversion back
	if named, ok := t.(*types.Named); ok {
		return &ast.CallExpr{Fun: ast.NewIdent(named.Obj().Name()), Args: []ast.Expr{call}}
	}
	return call
}

func isString(t types.Type) bool {
	b, ok := t.(*types.Basic)
	return ok && b.Info()&types.IsString != 0
}

func isByteSlice(t types.Type) bool {
	s, ok := t.(*types.Slice)
	if !ok {
		return false
	}
	b, ok := s.Elem().Underlying().(*types.Basic)
	return ok && b.Kind() == types.Byte
}

// walkBlocks instruments every statement list below n (function literals included).
func (in *instr) walkBlocks(n ast.Node) {
	ast.Inspect(n, func(x ast.Node) bool {
		switch t := x.(type) {
		case *ast.BlockStmt:
			t.List = in.instrumentList(t.List)
		case *ast.CaseClause:
			t.Body = in.instrumentList(t.Body)
		case *ast.CommClause:
			t.Body = in.instrumentList(t.Body)
		case *ast.ForStmt:
			t.Body.List = append([]ast.Stmt{&ast.ExprStmt{X: vrtCall("Tick")}}, t.Body.List...)
		case *ast.RangeStmt:
			t.Body.List = append([]ast.Stmt{&ast.ExprStmt{X: vrtCall("Tick")}}, t.Body.List...)
		}
		return true
	})
}

func genState(pkgName string, vars []*types.Var, staticWrites []int) string {
	var b strings.Builder
	fmt.Fprintf(&b, "// Code generated by vinstr. DO NOT EDIT.\n\npackage %s\n\nimport vrt \"verif/vrt\"\n\n", pkgName)
	b.WriteString("func init() {\n\tvrt.MarkInstrumented()\n")
	b.WriteString("\tvrt.VarNames = []string{")
	for _, v := range vars {
		fmt.Fprintf(&b, "%q, ", v.Name())
	}
	b.WriteString("}\n\tvrt.StaticWriteSites = []int{")
	for _, n := range staticWrites {
		fmt.Fprintf(&b, "%d, ", n)
	}
	b.WriteString("}\n\tvrt.StateVars = []vrt.StateVar{\n")
	for _, v := range vars {
		if v.Name() == "_" {
			continue
		}
		fmt.Fprintf(&b, "\t\t{Name: %q, Ptr: &%s},\n", v.Name(), v.Name())
	}
	b.WriteString("\t}\n}\n")
	return b.String()
}
