package alpha

import (
	"encoding/json"
	"go/ast"
	"go/parser"
	"go/token"
	"os"
	"path/filepath"
	"sort"
	"strconv"
	"strings"
	"sync"
	"unicode/utf8"
)

// Harvest - the alphabets above were written from the pinned tree. A change to the library can introduce
// a byte, a word or a size the lexers did not compare against before (a new marker, a new escape, a new
// buffer size); no fixed alphabet contains it. Every check therefore reads the literals of the tree it
// is about to explore: string, character and byte-valued integer literals of the non-test sources (the
// large tables are covered entry by entry elsewhere). Literals that are not already part of a symbol of
// the literal set of the pinned tree (baseline/literals.json, dumped once with VERIF_CALIB=literals) become
// additional symbols of a "delta" exploration (DeltaSQL / DeltaHTML); integer constants that occur more
// often than in the pinned tree, and narrow integer types that are used more often, become additional
// length / count boundaries (NewInts). On the pinned tree all three are empty.
type Harvested struct {
	SQL   []string       `json:"sql"` // literal symbols by the side of the library they were found in
	HTML  []string       `json:"html"`
	Ints  map[string]int `json:"ints"`  // integer constants 8..1<<20 with their number of occurrences
	Types map[string]int `json:"types"` // occurrences of the narrow integer type names
}

var (
	harvestOnce sync.Once
	harvested   Harvested
)

// Harvested literals of the repository under test (cached).
func Harvest() Harvested {
	harvestOnce.Do(func() { harvested = harvestDir(RepoDir()) })
	return harvested
}

func harvestDir(dir string) Harvested {
	files, _ := filepath.Glob(filepath.Join(dir, "*.go"))
	sort.Strings(files)
	sql, html := map[string]bool{}, map[string]bool{}
	ints := map[string]int{}
	types := map[string]int{}
	fset := token.NewFileSet()
	for _, f := range files {
		base := filepath.Base(f)
		if strings.HasSuffix(base, "_test.go") || base == "verif_hooks.go" {
			continue
		}
		src, err := os.ReadFile(f)
		if err != nil {
			continue
		}
		af, err := parser.ParseFile(fset, f, src, parser.SkipObjectResolution)
		if err != nil {
			continue
		}
		var sides []map[string]bool
		switch {
		case strings.HasPrefix(base, "sqli"):
			sides = []map[string]bool{sql}
		case strings.HasPrefix(base, "xss"), strings.HasPrefix(base, "html5"):
			sides = []map[string]bool{html}
		default:
			sides = []map[string]bool{sql, html}
		}
		add := func(s string) {
			if len(s) == 0 || len(s) > 24 {
				return
			}
			for _, m := range sides {
				m[s] = true
			}
		}
		ast.Inspect(af, func(n ast.Node) bool {
			switch x := n.(type) {
			case *ast.ImportSpec:
				return false
			case *ast.Field:
				if x.Tag != nil {
					// struct tags are not data
					ast.Inspect(x.Type, func(m ast.Node) bool { countType(m, types); return true })
					return false
				}
			case *ast.CompositeLit:
				if len(x.Elts) > 40 {
					// the keyword / black-list tables: every entry is explored by the table-driven families
					return false
				}
			case *ast.Ident:
				countType(x, types)
			case *ast.BinaryExpr:
				// sizes written as constant expressions: 1 << 20, 64 * 1024
				if a, ok := x.X.(*ast.BasicLit); ok && a.Kind == token.INT {
					if b, ok := x.Y.(*ast.BasicLit); ok && b.Kind == token.INT {
						av, e1 := strconv.ParseInt(a.Value, 0, 64)
						bv, e2 := strconv.ParseInt(b.Value, 0, 64)
						if e1 == nil && e2 == nil {
							var v int64 = -1
							switch x.Op {
							case token.SHL:
								if bv < 40 {
									v = av << uint(bv)
								}
							case token.MUL:
								v = av * bv
							}
							if v >= 8 && v <= 1<<24 {
								ints[strconv.Itoa(int(v))]++
							}
						}
					}
				}
			case *ast.BasicLit:
				switch x.Kind {
				case token.STRING:
					if s, err := strconv.Unquote(x.Value); err == nil {
						add(s)
					}
				case token.CHAR:
					if s, err := strconv.Unquote(x.Value); err == nil {
						add(s)
						if r, _ := utf8.DecodeRuneInString(s); r >= 0x80 && r <= 0xff {
							add(string([]byte{byte(r)})) // 'é' compared with a byte
						}
					}
				case token.INT:
					if v, err := strconv.ParseInt(x.Value, 0, 64); err == nil {
						if v >= 0x80 && v <= 0xff {
							add(string([]byte{byte(v)}))
						}
						if v >= 8 && v <= 1<<24 {
							ints[strconv.Itoa(int(v))]++
						}
					}
				}
			}
			return true
		})
	}
	// literals are kept Go-quoted: raw bytes >= 0x80 do not survive JSON otherwise
	h := Harvested{Types: types, Ints: ints}
	for s := range sql {
		h.SQL = append(h.SQL, strconv.QuoteToASCII(s))
	}
	for s := range html {
		h.HTML = append(h.HTML, strconv.QuoteToASCII(s))
	}
	sort.Strings(h.SQL)
	sort.Strings(h.HTML)
	return h
}

func countType(n ast.Node, types map[string]int) {
	if id, ok := n.(*ast.Ident); ok {
		switch id.Name {
		case "uint8", "int8", "uint16", "int16", "byte":
			types[id.Name]++
		}
	}
}

func lowerASCII(s string) string {
	b := []byte(s)
	for i, c := range b {
		if c >= 'A' && c <= 'Z' {
			b[i] = c + 32
		}
	}
	return string(b)
}

func upperASCII(s string) string {
	b := []byte(s)
	for i, c := range b {
		if c >= 'a' && c <= 'z' {
			b[i] = c - 32
		}
	}
	return string(b)
}

var (
	baseOnce sync.Once
	baseLits Harvested
	baseErr  error
)

// BaselineFile is the committed literal snapshot of the pinned tree.
func BaselineFile() string {
	root := os.Getenv("VERIF_ROOT")
	if root == "" {
		root = "/verif"
	}
	return filepath.Join(root, "baseline", "literals.json")
}

func baseline() (Harvested, error) {
	baseOnce.Do(func() {
		b, err := os.ReadFile(BaselineFile())
		if err != nil {
			baseErr = err
			return
		}
		baseErr = json.Unmarshal(b, &baseLits)
	})
	return baseLits, baseErr
}

// DumpBaseline writes the literal snapshot of the tree under test (calibration, run once).
func DumpBaseline() error {
	b, _ := json.MarshalIndent(Harvest(), "", " ")
	return os.WriteFile(BaselineFile(), b, 0o644)
}

func minus(cur, base []string) []string {
	known := map[string]bool{}
	for _, s := range base {
		known[lowerASCII(s)] = true
	}
	var out []string
	for _, s := range cur {
		if !known[lowerASCII(s)] {
			if u, err := strconv.Unquote(s); err == nil {
				out = append(out, u)
			}
		}
	}
	return out
}

// DeltaSQL returns the SQL-side literals of the tree under test that the pinned tree does not
// contain (compared case-insensitively), each as written / lower-case / upper-case.
func DeltaSQL() []string {
	b, err := baseline()
	if err != nil {
		panic("harness: " + err.Error())
	}
	return caseForms(minus(Harvest().SQL, b.SQL))
}

// DeltaSQLRaw / DeltaHTMLRaw: the new literals as written only.
func DeltaSQLRaw() []string {
	b, err := baseline()
	if err != nil {
		panic("harness: " + err.Error())
	}
	return minus(Harvest().SQL, b.SQL)
}

func DeltaHTMLRaw() []string {
	b, err := baseline()
	if err != nil {
		panic("harness: " + err.Error())
	}
	return minus(Harvest().HTML, b.HTML)
}

// DeltaHTML: the same for the HTML side.
func DeltaHTML() []string {
	b, err := baseline()
	if err != nil {
		panic("harness: " + err.Error())
	}
	return caseForms(minus(Harvest().HTML, b.HTML))
}

func caseForms(lits []string) []string {
	seen := map[string]bool{}
	var out []string
	for _, l := range lits {
		for _, f := range []string{l, lowerASCII(l), upperASCII(l)} {
			if !seen[f] {
				seen[f] = true
				out = append(out, f)
			}
		}
	}
	return out
}

// NewInts returns the integer constants that occur more often in the tree under test than in the pinned
// tree, plus the widths of narrow integer types that are used more often than in the pinned tree.
func NewInts() []int {
	b, err := baseline()
	if err != nil {
		panic("harness: " + err.Error())
	}
	h := Harvest()
	seen := map[int]bool{}
	var out []int
	for k, n := range h.Ints {
		if n > b.Ints[k] {
			v, _ := strconv.Atoi(k)
			if !seen[v] {
				seen[v] = true
				out = append(out, v)
			}
		}
	}
	for name, width := range map[string]int{"uint8": 256, "int8": 128, "uint16": 65536, "int16": 32768} {
		if h.Types[name] > b.Types[name] && !seen[width] {
			seen[width] = true
			out = append(out, width)
		}
	}
	sort.Ints(out)
	return out
}
