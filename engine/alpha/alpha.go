// Package alpha holds the symbol alphabets (bytes and multi-byte fragments) of the trie
// searches, simplest symbols first, each with the code site it exists for, and the
// finite structured families (corpus cuts, repetitions).
package alpha

import (
	"os"
	"path/filepath"
	"sort"
	"strings"
)

// S1 — SQL bytes: one representative per dispatch/accept-table class plus every byte the
// lexers compare individually (sqli_parse.go, sqli_data.go, sqli_helpers.go).
var S1 = []string{
	"1", "a", " ", "'", "\"", "`", "\\", "/", "*", "-", "#", "$", "@", ".", ",", ";", "(", ")",
	"[", "]", "{", "}", ":", "=", "<", ">", "!", "&", "|", "%", "+", "~", "?", "^", "_",
	"0", "9", "e", "E", "n", "N", "q", "Q", "u", "U", "x", "X", "b", "B", "d", "f",
	"\n", "\x00", "\x7f", "\xa0", "\xe9",
	// range boundaries of the letter tests and one multi-byte rune whose low byte aliases a quote
	// (U+0127 -> 0x27): a rune-to-byte truncation makes it look like the delimiter
	"z", "Z", "\u0127",
	"\xef\xbb\xbf", // UTF-8 byte-order mark: an input "normalisation" that strips it changes which string is judged
	// every remaining byte the lexers compare individually (audited against the char literals of sqli*.go
	// by tools/alphabet_audit.py): the other whitespace bytes, the upper-case float suffixes, the IF letters
	"\t", "\v", "\f", "\r", "D", "F", "i", "I",
}

// S1core — the 30 most state-changing SQL bytes, for one level deeper.
var S1core = []string{
	"1", "a", " ", "'", "\"", "`", "\\", "/", "*", "-", "#", "$", "@", ".", ",", ";", "(", ")",
	"[", "]", "{", "=", "<", "!", "&", "|", "+", "e", "q", "\n",
}

// S2 — SQL lexical fragments: construct openers/closers as atoms so that "end of input right
// after an opener" is a depth-1 state.
var S2 = []string{
	"1", "a", " ", "'", "\"", "`", "\\", "/*", "*/", "/*!", "--", "-- ", "#", "$$", "$a$", "$A$", "$",
	"q'(", ")'", "q'\xe9", "\xe9'", "nq'[", "]'", "n'", "N'", "e'", "u&'", "x'", "b'", "0x", "0b", "1e", "1e+", "1.", "1f", ".",
	"@@", "@", "\\N", "\\'", "''", "<=>", "::", ":=", "||", "sp_password", "\n", "(", ")", ",", ";", "=", "-", "+",
	"[", "]", "{", "}", "or", "union", "select",
	"\xef\xbb\xbf", "\u0250", "\u017f", // BOM; runes whose upper case is longer (3 bytes) / is ASCII 'S'
	"\xff", // a byte that is not valid UTF-8 on its own (strings.ToUpper turns it into 3 bytes)
}

// S3 — SQL token classes for the folder: one or two single-token fragments per token class
// and per value the folder / whitelist inspects. Each symbol carries its own trailing space.
var S3 = []string{
	"1 ", "foo ", "'s' ", "@v ", "+ ", "- ", "! ", "~ ", "!! ", "not ", "* ", "= ", ":: ", "and ", "or ",
	"union ", "all ", "select ", "group ", "by ", "insert ", "into ", "in ", "like ", "user ", "database ", "sleep ",
	"if ", "int ", "collate ", "a_b ", "( ", ") ", "{ ", "} ", ", ", "; ", ". ", ": ", "\\ ", "? ", "`` ", "`if` ",
	"/**/ ", "/*!*/ ", "# ", "-- \n", "--x\n", "'' ", "\" ", "' ", "` ", "--x/* ",
}

// S3core — the token classes that drive most folding rules, for deeper (6-7 token) searches.
var S3core = []string{
	"1 ", "foo ", "'s' ", "@v ", "- ", "= ", "or ", "union ", "select ", "sleep ", "int ", "( ", ") ", ", ", "; ", "/**/ ",
}

// H1 — HTML bytes: every byte the tokenizer, classifier and decoder compare against plus
// ordinary letters.
var H1 = []string{
	"a", "<", ">", "/", "=", "'", "\"", "`", "!", "-", "?", "%", "[", "]", "&", "#", ";", ":", " ",
	"\x00", "\t", "\n", "o", "n", "x", "X", "s", "1", "C",
	// 'z' (upper boundary of the letter ranges; case flips give 'Z') and multi-byte runes whose low
	// byte aliases '=' (U+043D) and '<' (U+013C): a rune-to-byte truncation turns them into markup
	"z", "\u043d", "\u013c",
	"\\", // not special in HTML: a change that starts treating it as an escape must be visible
	"\xef\xbb\xbf", // UTF-8 byte-order mark
	"A", "Z", "\v", "\f", "\r", // lower boundary / upper boundary of the upper-case range; the other HTML whitespace bytes
}

// H1core — 20 bytes for one level deeper.
var H1core = []string{
	"a", "<", ">", "/", "=", "'", "\"", "`", "!", "-", "?", "%", "[", "]", " ", "\x00", "o", "n", "x", ":",
}

// H2 — HTML fragments.
var H2 = []string{
	"a", "<", ">", "/", "=", "'", "\"", "`", " ", "\x00", "-", "%", "]", "!",
	"<![CDATA[", "]]>", "]]", "<!--", "-->", "--!>", "-!>", "<%", "%>", "<?", "<!", "<!doctype", "</", "/>",
	"<a", "<xss", "<script", "onerror", "href", "style", "xmlns", "attributename", "javascript:", "&#106", "&#x6a;",
	"[if", "xml", "import", "entity",
	"\u043d", "\u013c", // runes whose low byte aliases '=' / '<'
	"<![cdata[", "&#x6a", "\\", // lower-case CDATA is NOT a CDATA section; unterminated hex reference; backslash
	"\xef\xbb\xbf", "folder", // BOM; a URL attribute documented as "only on A tags"
}

// Fixtures returns every --INPUT-- of repo/tests/*.txt plus literal payloads of the Go tests.
func Fixtures(repo string) []string {
	var out []string
	seen := map[string]bool{}
	add := func(s string) {
		if s != "" && !seen[s] {
			seen[s] = true
			out = append(out, s)
		}
	}
	files, _ := filepath.Glob(filepath.Join(repo, "tests", "*.txt"))
	sort.Strings(files)
	for _, f := range files {
		b, err := os.ReadFile(f)
		if err != nil {
			continue
		}
		state := ""
		var in []string
		for _, line := range strings.Split(string(b), "\n") {
			t := strings.TrimSpace(line)
			if t == "--TEST--" || t == "--INPUT--" || t == "--EXPECTED--" {
				state = t
				continue
			}
			if state == "--INPUT--" {
				in = append(in, t)
			}
		}
		add(strings.TrimSpace(strings.Join(in, "\n")))
	}
	for _, s := range extraPayloads {
		add(s)
	}
	return out
}

var extraPayloads = []string{
	"-1' and 1=1 union/* foo */select load_file('/etc/passwd')--",
	"<script>alert(1);</script>", "><script>alert(1);</script>", "x ><script>alert(1);</script>",
	"' ><script>alert(1);</script>", "\"><script>alert(1);</script>", "red;</style><script>alert(1);</script>",
	"red;\"/><script>alert(1);</script>", "');}</style><script>alert(1);</script>", "onerror=alert(1)>",
	"x onerror=alert(1);>", "x' onerror=alert(1);>", "x\" onerror=alert(1);>", "<a href=\"javascript:alert(1)\">",
	"<a href='javascript:alert(1)'>", "<a href=javascript:alert(1)>", "<a href  =   javascript:alert(1); >",
	"<a href=\"  javascript:alert(1);\" >", "<a href=\"JAVASCRIPT:alert(1);\" >",
	"<style>@keyframes x{}</style><xss style=\"animation-name:x\" onanimationstart=\"alert(1)\"></xss>",
	"<noembed><img title=\"</noembed><img src onerror=alert(1)>\"></noembed>",
	"javascript:/*--></title></style></textarea></script></xmp><svg/onload='+/\"/+/onmouseover=1/+/[*/[]/+alert(1)//'>",
	"<xss class=progress-bar-animated onanimationstart=alert(1)>",
	"<button popovertarget=x>Click me</button><xss ontoggle=alert(1) popover id=x>XSS</xss>",
	"<HTML xmlns:xss><?import namespace=\"xss\" implementation=\"%(htc)s\"><xss:xss>XSS</xss:xss></HTML>",
	"myvar=onfoobar==", "onY29va2llcw==", "href=&#", "href=&#X",
	"<![CDATA[ x ]]>", "<!-- x --!> y -->", "<% a %b %>", "<!DOCTYPE html>", "<?xml version=\"1.0\"?>", "<a b=`c`>",
	"q'(a)' or 1=1", "$tag$ x $tag$ or 1", "1e+5 or 0x1f", "@@version, @`v`, @'v'", "u&'x' n'y' e'z' x'00' b'01'",
}

// Cuts returns, for every corpus string: all prefixes, all suffixes, and each prefix with each
// of the quote bytes appended (the "every construct cut at every offset" family).
func Cuts(corpus []string, quotes string, maxLen int) []string {
	seen := map[string]bool{}
	var out []string
	add := func(s string) {
		if len(s) <= maxLen && !seen[s] {
			seen[s] = true
			out = append(out, s)
		}
	}
	for _, c := range corpus {
		for i := 0; i <= len(c); i++ {
			add(c[:i])
			add(c[i:])
			for j := 0; j < len(quotes); j++ {
				add(c[:i] + quotes[j:j+1])
			}
		}
	}
	return out
}

// Rep builds opener + unit^k + closer with total length about n.
func Rep(opener, unit, closer string, n int) string {
	if unit == "" {
		return opener + closer
	}
	k := (n - len(opener) - len(closer)) / len(unit)
	if k < 1 {
		k = 1
	}
	return opener + strings.Repeat(unit, k) + closer
}

// Units returns alpha^[1..maxLen] as concatenated strings.
func Units(alpha []string, maxLen int) []string {
	var out []string
	cur := []string{""}
	for l := 1; l <= maxLen; l++ {
		var next []string
		for _, p := range cur {
			for _, a := range alpha {
				next = append(next, p+a)
			}
		}
		out = append(out, next...)
		cur = next
	}
	return out
}

// RepoDir is the repository under test.
func RepoDir() string {
	if r := os.Getenv("VERIF_REPO"); r != "" {
		return r
	}
	return "/repo"
}

// S3lit — the literal words the folder / whitelist compare values against and the case-foldable
// lexical prefix forms, as single-token fragments (plus a few operators to combine them).
var S3lit = []string{
	"1 ", "foo ", "'s' ", "or ", "; ", "( ", ") ", ", ", "= ", "select ", "union ", "@", "@user ", "` ",
	"user ", "user_id ", "user_name ", "database ", "password ", "current_user ", "current_date ", "current_time ",
	"current_timestamp ", "localtime ", "localtimestamp ", "in ", "not ", "like ", "into ", "outfile ", "dumpfile ", "if ", "collate ", "a_b ",
	"u&'s' ", "n's' ", "e's' ", "x'1f' ", "b'01' ", "0x1f ", "0b01 ", "1e5 ", "1.5d ", "q'(s)' ", "nq'[s]' ", "$a$s$a$ ", "\\N ", "--x/* ",
	"all ", "by ", "group ", "order ", "`all` ", "`by` ", "`union` ", "`user` ", "\\ ", "+ ", "{ ", "`` ",
}

// SQLPrefixes put the scanner / the context cascade into a non-initial situation (an open quote
// after an invalid high byte, a '#' or '--x' seen inside a quote, both quote kinds present ...).
var SQLPrefixes = []string{"\xe9' ", "\xff\" ", "1' ", "a\" ", "\\' ", "1'/**/", ")' ", "x' # ", "x' --y ", "x # ", "x\" # ", "x' #\" ", "x\" #' ", "\xef\xbb\xbf",
	// window positions: k settled tokens that do not fold with each other, so that the next tokens meet every fold rule at window offset k
	"1 ( ", "1 ( 1 ", "1 ( 1 ( ", "1 ( 1 ( 1 ", "1 ( 1 ( 1 ( ", "foo ) = ( ", "1 ) , ( ", "foo = ( ", "1 , ( "}

// HTMLPrefixes put the tokenizer into a non-initial state (inside an end tag, after a quoted value,
// after a self-closing slash, inside an attribute list ...).
var HTMLPrefixes = []string{"</a ", "</a b=\"x\"", "</a b='x' ", "<a b=\"x\"", "<a b=x ", "<a/", "</a/", "<a b", "</a b", "<!--x-->", "</>", "</a>",
	"</a x='", "</a x=\"", "<a x=`", "</a b=x", "\xef\xbb\xbf",
	"</a b=\"x\">", "</a b='x'>", "</a >", "</a x='>", "</a x=\">", "</a x=`>",
	// leading blanks / NULs and then the quote that closes the value the context starts in
	" '", " \"", " `", "\x00'", "\n\"", "\t`", " ", "\x00"}

func rep(u string, k int) string { return strings.Repeat(u, k) }

// LenSQL — token-length boundary family: single tokens of every class with lengths 1..40 and pairs
// of word-like tokens with every length combination up to 33 (the 31/32-byte value clip, the merge
// size guard and fixed-size buffers all sit there).
func LenSQL() []string {
	var out []string
	single := []func(k int) string{
		func(k int) string { return rep("a", k) },
		func(k int) string { return rep("1", k) },
		func(k int) string { return rep("ɐ", k) }, // upper-cases to a 3-byte rune: keys grow
		func(k int) string { return rep("ſ", k) }, // upper-cases to ASCII 'S': keys shrink
		func(k int) string { return "'" + rep("a", k) + "'" },
		func(k int) string { return "@" + rep("a", k) },
		func(k int) string { return "`" + rep("a", k) + "`" },
		func(k int) string { return "[" + rep("a", k) + "]" },
		func(k int) string { return "/*" + rep("a", k) + "*/" },
		func(k int) string { return "--" + rep("a", k) },
		func(k int) string { return "0x" + rep("f", k) },
		func(k int) string { return rep("a", k) + ".b" },
		func(k int) string { return "select" + rep("a", k) },
		func(k int) string { return rep("a", k) + "`b`" },
		func(k int) string { return rep("1", k) + "/*x*/" },
		func(k int) string { return "$a$" + rep("b", k) + "$a$" },
		// values that fold to a single number in front of a comment (the "1c" shape the whitelist reads as raw text)
		func(k int) string { return "1-" + rep("a", k) + "--" },
		func(k int) string { return "1234-" + rep("a", k/2) + "_" + rep("b", k-k/2) + "--" },
		func(k int) string { return "1+" + rep("a", k) + "/*" },
		func(k int) string { return "1-" + rep("a", k) + "#" },
	}
	tails := []string{"", " or 1", "/*x*/", " --"}
	for _, g := range single {
		for k := 1; k <= 40; k++ {
			for _, t := range tails {
				out = append(out, g(k)+t)
			}
		}
	}
	wordlike := []func(k int) string{
		func(k int) string { return rep("a", k) },
		func(k int) string { return rep("ɐ", (k+1)/2) },
		func(k int) string { return "`" + rep("a", k-1) + "`" },
		func(k int) string { return "union"[:min(k, 5)] + rep("a", max(0, k-5)) },
	}
	for _, g1 := range wordlike {
		for _, g2 := range wordlike {
			for i := 1; i <= 33; i++ {
				for j := 1; j <= 33; j++ {
					if i+j < 28 || i+j > 36 {
						continue // the interesting sums sit around the 31/32 boundary
					}
					out = append(out, g1(i)+" "+g2(j), "1 "+g1(i)+" "+g2(j)+" 1")
				}
			}
		}
	}
	return out
}

// LenHTML — name-length / NUL-padding / leading-junk boundary family for the XSS side.
func LenHTML(events []string) []string {
	var out []string
	names := []string{"script", "iframe", "frameset", "xml", "svt"}
	attrs := []string{"onclick", "href", "style", "xmlns", "by", "attributename"}
	longest := ""
	for _, e := range events {
		if len(e) > len(longest) {
			longest = e
		}
	}
	if longest != "" {
		attrs = append(attrs, "on"+strings.ToLower(longest))
	}
	pad := func(n string, k int) string { m := len(n) / 2; return n[:m] + rep("\x00", k) + n[m:] }
	for k := 0; k <= 64; k++ {
		for _, n := range names {
			out = append(out, "<"+pad(n, k)+">", "<"+pad(n, k)+" x=1>")
		}
		for _, a := range attrs {
			v := "=javascript:alert(1)"
			if a == "attributename" {
				v = "=onclick"
			}
			out = append(out, "<a "+pad(a, k)+v+">", pad(a, k)+v)
		}
	}
	for _, k := range []int{0, 1, 2, 3, 250, 251, 252, 253, 254, 255, 256, 257, 258, 259, 260, 300, 1000} {
		for _, junk := range []string{" ", "\x01", "\x7f", "&#9;", "&#0;"} {
			out = append(out, "<a href=\""+rep(junk, k)+"javascript:alert(1)\">", "<a href='"+rep(junk, k)+"data:x'>")
		}
		out = append(out, "<a href=\"j"+rep("\x00", k)+"avascript:x\">", "<a href=\"&#"+rep("0", k)+"106;avascript:x\">")
	}
	return out
}

// ByteSweepHTML: every byte value 0..255 at each syntactic position of a few canonical vectors (a
// 256-entry class table with one wrong entry only shows for that byte at that position).
func ByteSweepHTML() []string {
	tmpl := []string{"<a onerror\x01x>", "<a onerror \x01x>", "<a onerror \x01javascript:x>", "<a href=\x01javascript:x>", "<a href=\"\x01javascript:x\">", "<\x01script>", "<s\x01cript>",
		"<a\x01onerror=x>", "<a onerror=x\x01>", "<a onerror\x01=x>", "<a onerror=\x01x>", "<a href=java\x01script:x>", "<!\x01doctype>", "<!--\x01-->x", "</\x01a>", "<a x='y'\x01onerror=x>",
		"onerror \x01x", "onerror\x01 x", "style\x01x", "\x01onerror x", "x\x01 onerror", "<a href=&#\x01106;avascript:x>", "<a href=&#x\x016a;avascript:x>", "<![CDATA[\x01]]>x", "<%\x01%>x"}
	var out []string
	for _, t := range tmpl {
		for b := 0; b < 256; b++ {
			out = append(out, strings.Replace(t, "\x01", string([]byte{byte(b)}), 1))
		}
	}
	return out
}

// ByteSweepSQL: the same for the SQL side.
func ByteSweepSQL() []string {
	tmpl := []string{"1\x01or 1=1", "1 or\x011=1", "1 or 1\x01=1", "1' or\x01'1'='1", "'\x01' or 1", "1 union\x01select 1", "1\x01union select 1", "\x011 or 1=1", "1 or 1=1\x01", "1 or 1=1 --\x01", "1 --\x01x",
		"1 /*\x01*/ or 1", "q'\x01a\x01' or 1", "$\x01$a$\x01$ or 1", "@\x01 or 1", "1;\x01drop table t", "sel\x01ect 1", "1 or 1=\x011", "x' and\x01'y", "0x\x011", "1e\x011", "1.\x01", "\\\x01", "-\x01-", "/\x01*", "#\x01", "`\x01`", "[\x01]",
		// around the words the folder / whitelist compare literally, and behind the comment openers that feed the re-parse gate
		"1 collate a_\x01", "1 collate a\x01_b", "select a collate b_\x01_ci", "a--\x011 union select 1", "x'--\x011 union select 1", "1 like\x01(1)", "1 in\x01(1)", "1; if\x01(1)",
		"@@a\x01", "1 into\x01outfile 'x'", "\x01like(1)", "1 not\x01in (1)", "a#\x011 union select 1", "user\x01(1)", "1 union select current_user\x01"}
	var out []string
	for _, t := range tmpl {
		for b := 0; b < 256; b++ {
			out = append(out, strings.ReplaceAll(t, "\x01", string([]byte{byte(b)})))
		}
	}
	return out
}

// CountSweepHTML: a vector preceded by k copies of a unit for EVERY k in 0..300 (fixed-size token
// windows, batch boundaries and 8-bit counters fail at one particular count).
func CountSweepHTML() []string {
	var out []string
	units := []string{"<b>", "<b x=1>", "x ", "<!--x-->", "a=b "}
	vecs := []string{"<a onerror=x>", "<script>", "<a href=javascript:x>", "<a style=x>"}
	for _, u := range units {
		for _, v := range vecs {
			for _, k := range countPoints() {
				out = append(out, strings.Repeat(u, k)+v, ">"+strings.Repeat(u, k)+v, "'>"+strings.Repeat(u, k)+v)
			}
		}
	}
	// a bare attribute after k attribute-like units (unquoted attribute context), and after a closed quote
	for _, u := range []string{"x ", "a=b ", "a='b' "} {
		for _, k := range countPoints() {
			out = append(out, strings.Repeat(u, k)+"onerror=x>", "' "+strings.Repeat(u, k)+"onerror=x>", "\" "+strings.Repeat(u, k)+"href=javascript:x>")
		}
	}
	return out
}

// CountSweepSQL: the same for the SQL side.
func CountSweepSQL() []string {
	var out []string
	units := []string{"1,", "(", " ", "a.", "/**/", "1+", "--a\n", "#a\n", "a, ", "a ", "'a' ", "1 "}
	vecs := []string{"1 union select 1", "1 or 1=1", "1; drop table t", "1' or '1'='1"}
	ks := countPoints()
	for _, u := range units {
		for _, v := range vecs {
			for _, k := range ks {
				out = append(out, strings.Repeat(u, k)+v)
			}
		}
	}
	// an attack that only the MySQL reading sees ('--1' is a comment in ANSI mode), behind k comments that set the re-parse gate
	for _, u := range []string{"--a\n", "#a\n", "/**/", "--a\n#a\n"} {
		for _, k := range ks {
			out = append(out, "foo "+strings.Repeat(u, k)+"--1 or 1=1", "foo' "+strings.Repeat(u, k)+"--1 or 1=1")
		}
	}
	return out
}

// boundaryLens: lengths around the usual capacity boundaries, plus the neighbourhood of every integer
// constant (and narrow integer type width) the tree under test has in addition to the pinned tree.
func boundaryLens() []int {
	return append([]int{62, 63, 64, 65, 66, 126, 127, 128, 129, 130, 254, 255, 256, 257, 258}, newIntPoints(70, 1<<21)...)
}

// newIntPoints: N-1, N, N+1 for every new integer constant N in (lo, hi].
func newIntPoints(lo, hi int) []int {
	var out []int
	for _, n := range NewInts() {
		if n > lo && n <= hi {
			out = append(out, n-1, n, n+1)
		}
	}
	return out
}

// countPoints: every repetition count 0..300 plus the neighbourhood of larger new constants.
func countPoints() []int {
	var ks []int
	for k := 0; k <= 300; k++ {
		ks = append(ks, k)
	}
	return append(ks, newIntPoints(300, 4096)...)
}

// LenSQL2: more length boundaries: long tokens around 64/128/256, dollar tags of every length to 70,
// a word of length W followed by filler so that the total length takes every value in a window (a
// scanner that works in fixed-size windows fails when the remainder equals the window).
func LenSQL2() []string {
	var out []string
	for _, k := range boundaryLens() {
		out = append(out, rep("a", k), "'"+rep("a", k)+"'", "$"+rep("a", k)+"$x$"+rep("a", k)+"$ or 1", rep("a", k)+" union select 1", "1 or "+rep("a", k)+"=1", "/*"+rep("a", k)+"*/1 or 1")
	}
	for _, k := range boundaryLens() {
		out = append(out, "["+rep("a", k)+"]", "select ["+rep("a", k)+"] from t", "`"+rep("a", k)+"` or 1", "@"+rep("a", k)+" or 1", "1 or "+rep("1", k)+"=1", "0x"+rep("f", k)+" or 1", "--"+rep("a", k)+"\n1 or 1")
	}
	for k := 1; k <= 70; k++ {
		out = append(out, "$"+rep("a", k)+"$x$"+rep("a", k)+"$", "$"+rep("a", k)+"$x$"+rep("A", k)+"$", "$"+rep("a", k)+"$x\xff$"+rep("A", k)+"$")
	}
	for _, W := range []int{30, 31, 32, 33, 34, 35, 40, 48, 63, 64, 65, 66, 95, 96, 97} {
		for T := W; T <= W+40; T++ {
			out = append(out, rep("a", W)+" "+rep("1", T-W), rep("a", W-6)+"having "+rep("1", T-W), "a"+rep("b", W-1)+" "+rep("c", T-W))
		}
	}
	for k := 14; k <= 18; k++ {
		out = append(out, rep("ɐ", k), rep("ɐ", k)+" or 1", "'"+rep("ɐ", k)+"'", rep("é", k), "@"+rep("é", k), "`"+rep("é", k)+"`", rep("é", k)+"\xa0or 1")
	}
	return out
}

// LenHTML2: names of every length 1..70 with a rune whose upper case is one byte longer, and the
// boundary lengths for names and attribute values.
func LenHTML2() []string {
	var out []string
	for L := 1; L <= 70; L++ {
		n := rep("a", L-1)
		out = append(out, "<"+n+"ɐ>", "<a "+n+"ɐ=x>", "<a on"+n+"ɐ=x>", "<"+n+"ı>", "<a "+n+"ſ=x>")
	}
	for _, k := range boundaryLens() {
		out = append(out, "<"+rep("a", k)+" onerror=x>", "<a "+rep("b", k)+"=x onerror=y>", "<a x='"+rep("c", k)+"' onerror=y>", "<script"+rep("\x00", k)+">")
	}
	return out
}

// AttrFormsHTML: (1) every attribute class x value x blanks / NUL before and after the value inside each
// quoting; (2) every ordered PAIR of attributes of the different classes with a small set of values in one
// tag (what one attribute does to the judgement of the next: attributeName, remembered types, rewritten
// table entries).
func AttrFormsHTML() []string {
	var out []string
	names := []string{"href", "style", "onerror", "attributename", "xmlns", "src", "by", "folder", "x", "to", "filter", "formaction"}
	vals := []string{"javascript:x", "onclick", "xmlns", "x", "expression(1)", "style", "filter", "href"}
	pads := []string{"", " ", "\t", "\n", "\f", "\r", "\x00"}
	for _, n := range names {
		for _, v := range vals {
			for _, a := range pads {
				for _, b := range pads {
					for _, q := range []string{"\"", "'", "`"} {
						out = append(out, "<a "+n+"="+q+a+v+b+q+">")
					}
					if a == "" && b == "" {
						out = append(out, "<a "+n+"="+v+">")
					}
				}
			}
		}
	}
	for _, n1 := range names {
		for _, v1 := range vals {
			for _, n2 := range names {
				for _, v2 := range vals {
					out = append(out, "<a "+n1+"="+v1+" "+n2+"="+v2+">", "<set "+n1+"=\""+v1+"\" "+n2+"="+v2+">")
				}
			}
		}
	}
	return out
}

// PairSweepHTML / PairSweepSQL: the byte-sweep templates with every ordered PAIR of blank / control bytes at the
// swept position (CR LF, NUL LF, ... : a normalisation of one two-byte sequence is invisible to single-byte sweeps).
var pairBytes = []string{"\t", "\n", "\v", "\f", "\r", " ", "\x00", "\xa0", "\x85"}

func pairSweep(tmpl []string, all bool) []string {
	var out []string
	for _, t := range tmpl {
		for _, a := range pairBytes {
			for _, b := range pairBytes {
				if all {
					out = append(out, strings.ReplaceAll(t, "\x01", a+b))
				} else {
					out = append(out, strings.Replace(t, "\x01", a+b, 1))
				}
			}
		}
	}
	return out
}

func PairSweepHTML() []string {
	return pairSweep([]string{"<a href=java\x01script:x>", "<a href=\"ja\x01vascript:x\">", "<a href='\x01javascript:x'>", "<a\x01onerror=x>", "<a onerror\x01=x>", "<a onerror=\x01x>", "<a x=y\x01onerror=z>",
		"<a x='y'\x01onerror=z>", "<\x01script>", "<script\x01>", "<!\x01doctype>", "<!doctype\x01>", "x\x01'onerror=y", "\x01'onerror=y", "<a href=da\x01ta:x>", "<a style\x01=x>", "</a\x01><script>"}, false)
}

func PairSweepSQL() []string {
	return pairSweep([]string{"1\x01or 1=1", "1 or\x011=1", "1' or\x01'1'='1", "1 union\x01select 1", "1 --\x01x", "1 --x\x01union select 1", "1 #x\x01union select 1", "1;\x01drop table t", "1 or 1=1 --\x01",
		"1 /*x*/\x01or 1", "@a\x01 or 1", "1 in\x01(1)", "1 like\x01(1)"}, true)
}
