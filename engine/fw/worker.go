// Package fw is the exploration framework: sharded exhaustive enumeration in worker
// processes, a driver that merges their results, evidence and replay files.
package fw

import (
	"encoding/hex"
	"fmt"
	"hash/fnv"
	"os"
	"runtime/debug"
	"strings"
	"syscall"
	"time"
	"verif/vrt"
)

// ImplPkg is the import path prefix that identifies frames of the implementation.
const ImplPkg = "github.com/corazawaf/libinjection-go"

// Violation is one failing case.
type Violation struct {
	Property string `json:"property"`
	Phase    string `json:"phase"`
	Kind     string `json:"kind"`
	InputHex string `json:"input_hex"`
	InputStr string `json:"input_quoted"`
	Aux      string `json:"aux,omitempty"`
	Detail   string `json:"detail"`
	// Shard names the worker shard that reported the violation; History is set when the case only fails after
	// the calls the shard made before it (it passes in a fresh process, and fails identically when the shard is re-run).
	Shard   string `json:"shard,omitempty"`
	History bool   `json:"history_dependent,omitempty"`
}

// Key identifies a violation for the known-findings file.
func (v Violation) Key() string {
	return v.Property + "|" + v.Phase + "|" + v.Kind + "|" + v.InputHex + "|" + v.Aux
}

// PhaseResult is what one worker measured for one phase.
type PhaseResult struct {
	Name        string           `json:"name"`
	Space       string           `json:"space"`
	Levels      []bool           `json:"levels,omitempty"` // Levels[i]: all strings of i+MinLevel symbols of this shard done
	MinLevel    int              `json:"min_level,omitempty"`
	AlphaSize   int              `json:"alpha_size,omitempty"`
	Complete    bool             `json:"complete"`
	Evals       int64            `json:"evals"`
	States      int64            `json:"states"`
	Transitions int64            `json:"transitions"`
	Traces      int64            `json:"traces"`
	Nontrivial  int64            `json:"nontrivial"`
	Outcomes    []uint64         `json:"outcomes,omitempty"`
	OutcomeCap  bool             `json:"outcome_cap,omitempty"`
	NViol       int64            `json:"nviol"`
	Violations  []Violation      `json:"violations,omitempty"`
	Samples     []any            `json:"samples,omitempty"`
	Extra       map[string]int64 `json:"extra,omitempty"`
	Notes       []string         `json:"notes,omitempty"`
	WallS       float64          `json:"wall_s"`
}

// WorkerResult is the JSON a worker prints.
type WorkerResult struct {
	Shard       int           `json:"shard"`
	Phases      []PhaseResult `json:"phases"`
	EngineError string        `json:"engine_error,omitempty"`
}

const maxOutcomes = 1 << 18
const maxViolKeep = 40
const maxSamples = 4

// W is the per-worker context handed to phases.
type W struct {
	Prop    string
	Tier    string
	Shard   int
	NShards int
	Seed    int64
	// PanicOutOfScope: see Check.PanicOutOfScope
	PanicOutOfScope bool
	Budget          time.Duration // budget of the current phase
	start           time.Time     // start of the current phase
	deadline        time.Time

	cur       *PhaseResult
	outcomes  map[uint64]struct{}
	eval      func(w *W, input, aux string)
	curIn     string
	curAux    string
	journal   []byte
	tick      int
	expired   bool
	Replay    bool // single-case replay mode: keep everything verbose
	EngineErr string
}

// Thorough reports whether the thorough tier is running.
func (w *W) Thorough() bool { return w.Tier == "thorough" }

// Pick returns q in quick tier and t in thorough tier.
func (w *W) Pick(q, t int) int {
	if w.Thorough() {
		return t
	}
	return q
}

// Expired reports whether the phase budget is used up (checked cheaply).
func (w *W) Expired() bool {
	if w.expired {
		return true
	}
	w.tick++
	if w.tick&0xf == 0 && time.Now().After(w.deadline) {
		w.expired = true
	}
	return w.expired
}

// ExpiredNow looks at the clock on every call (phases whose single step is slow: schedule exploration, histories).
func (w *W) ExpiredNow() bool {
	if !w.expired && time.Now().After(w.deadline) {
		w.expired = true
	}
	return w.expired
}

// Remaining is the time left in the phase budget.
func (w *W) Remaining() time.Duration { return time.Until(w.deadline) }

// Mine reports whether item i belongs to this shard.
func (w *W) Mine(i int) bool {
	return (i+int(w.Seed%int64(w.NShards))+w.NShards)%w.NShards == w.Shard
}

// OpenJournal maps the crash journal file (driver reads it if the worker dies or hangs).
func (w *W) OpenJournal(path string) error {
	f, err := os.OpenFile(path, os.O_RDWR|os.O_CREATE|os.O_TRUNC, 0o644)
	if err != nil {
		return err
	}
	defer f.Close()
	const size = 4 << 20
	if err := f.Truncate(size); err != nil {
		return err
	}
	b, err := syscall.Mmap(int(f.Fd()), 0, size, syscall.PROT_READ|syscall.PROT_WRITE, syscall.MAP_SHARED)
	if err != nil {
		return err
	}
	w.journal = b
	return nil
}

func (w *W) journalCase(phase, input, aux string) {
	if w.journal == nil {
		return
	}
	b := w.journal
	put := func(off int, s string, max int) int {
		n := len(s)
		if n > max {
			n = max
		}
		b[off] = byte(n)
		b[off+1] = byte(n >> 8)
		b[off+2] = byte(n >> 16)
		copy(b[off+3:], s[:n])
		return off + 3 + n
	}
	b[0] = 0 // invalid while writing
	o := put(1, phase, 200)
	o = put(o, aux, 4000)
	put(o, input, len(b)-o-8)
	b[0] = 1
}

// ReadJournal decodes a journal file written by journalCase.
func ReadJournal(path string) (phase, input, aux string, ok bool) {
	b, err := os.ReadFile(path)
	if err != nil || len(b) < 16 || b[0] != 1 {
		return
	}
	get := func(off int) (string, int) {
		n := int(b[off]) | int(b[off+1])<<8 | int(b[off+2])<<16
		return string(b[off+3 : off+3+n]), off + 3 + n
	}
	o := 1
	phase, o = get(o)
	aux, o = get(o)
	input, _ = get(o)
	return phase, input, aux, true
}

// Case evaluates one element of the space with the phase's eval function.
func (w *W) Case(input, aux string) {
	w.cur.Evals++
	w.curIn, w.curAux = input, aux
	w.journalCase(w.cur.Name, input, aux)
	defer w.recoverCase()
	w.eval(w, input, aux)
}

func (w *W) recoverCase() {
	r := recover()
	if r == nil {
		return
	}
	switch e := r.(type) {
	case vrt.BudgetExceeded:
		vrt.ResetCounters(0, 0)
		w.Fail("no-termination-within-budget", fmt.Sprintf("the call did not return within its deterministic work budget: %d work units spent, budget %d (input length %d)", e.Work, e.Budget, len(w.curIn)))
		return
	case vrt.DepthExceeded:
		vrt.ResetCounters(0, 0)
		w.Fail("recursion-depth", fmt.Sprintf("call depth reached %d: recursion grows with the input (input length %d)", e.Depth, len(w.curIn)))
		return
	}
	st := string(debug.Stack())
	origin := panicOrigin(st)
	if strings.HasPrefix(origin, ImplPkg) {
		if w.PanicOutOfScope {
			vrt.ResetCounters(0, 0)
			w.Extra("cases_where_the_call_panicked_out_of_scope_here", 1)
			return
		}
		w.Fail("panic", fmt.Sprintf("%v at %s", r, origin))
		return
	}
	// a panic in harness/model code is an engine error, never a violation
	if w.EngineErr == "" {
		w.EngineErr = fmt.Sprintf("engine panic: %v in %s on input %q aux %q\n%s", r, origin, w.curIn, w.curAux, st)
	}
}

// panicOrigin extracts the function in which the panic was raised from a stack dump.
func panicOrigin(st string) string {
	lines := strings.Split(st, "\n")
	// a deferred function that re-panics (budget handlers do) puts a second "panic(" above the original one:
	// the origin is below the LAST one
	last := -1
	for i, l := range lines {
		if strings.HasPrefix(l, "panic(") {
			last = i
		}
	}
	first := ""
	for i, l := range lines {
		if strings.HasPrefix(l, "\t") {
			continue
		}
		if last < 0 || i <= last {
			continue
		}
		fn := l
		if i := strings.LastIndex(l, "("); i > 0 {
			fn = l[:i]
		}
		if first == "" && !strings.HasPrefix(fn, "runtime.") {
			first = fn
		}
		// a panic raised inside the standard library is attributed to its first caller that is either
		// the implementation or the harness
		if strings.HasPrefix(fn, ImplPkg) || strings.HasPrefix(fn, "verif/") || strings.HasPrefix(fn, "main.") {
			if first != fn && first != "" {
				return fn + " (via " + first + ")"
			}
			return fn
		}
	}
	if first != "" {
		return first
	}
	return "?"
}

// Safe runs f and returns the recovered panic (nil if none) with its origin.
func Safe(f func()) (pv any, origin string) {
	defer func() {
		if r := recover(); r != nil {
			pv = r
			origin = panicOrigin(string(debug.Stack()))
		}
	}()
	f()
	return nil, ""
}

// Fail records a violation for the current case.
func (w *W) Fail(kind, detail string) {
	w.cur.NViol++
	if len(w.cur.Violations) < maxViolKeep {
		in := w.curIn
		q := fmt.Sprintf("%q", in)
		if len(q) > 300 {
			q = q[:300] + "...(" + fmt.Sprint(len(in)) + " bytes)"
		}
		w.cur.Violations = append(w.cur.Violations, Violation{
			Property: w.Prop, Phase: w.cur.Name, Kind: kind,
			InputHex: hex.EncodeToString([]byte(in)), InputStr: q, Aux: w.curAux, Detail: detail,
		})
	}
}

// Outcome records an observation hash (vacuity guard: distinct outcomes are counted).
func (w *W) Outcome(h uint64) {
	if len(w.outcomes) >= maxOutcomes {
		w.cur.OutcomeCap = true
		return
	}
	w.outcomes[h] = struct{}{}
}

// OutcomeStr hashes and records a string observation.
func (w *W) OutcomeStr(s string) { w.Outcome(Hash(s)) }

// Hash is FNV-1a 64.
func Hash(s string) uint64 {
	h := fnv.New64a()
	h.Write([]byte(s))
	return h.Sum64()
}

// NonTrivial counts the current case as non-trivial by the phase's rule.
func (w *W) NonTrivial() { w.cur.Nontrivial++ }

// Traces adds n model traces compared against the implementation.
func (w *W) Traces(n int) { w.cur.Traces += int64(n) }

// States / Transitions add explicit-state counts for non-trie phases.
func (w *W) States(n int)      { w.cur.States += int64(n) }
func (w *W) Transitions(n int) { w.cur.Transitions += int64(n) }

// Extra accumulates a named counter into the phase result.
func (w *W) Extra(name string, n int64) {
	if w.cur.Extra == nil {
		w.cur.Extra = map[string]int64{}
	}
	w.cur.Extra[name] += n
}

// ExtraMax keeps the maximum of a named measurement.
func (w *W) ExtraMax(name string, n int64) {
	if w.cur.Extra == nil {
		w.cur.Extra = map[string]int64{}
	}
	if n > w.cur.Extra[name] {
		w.cur.Extra[name] = n
	}
}

// Note attaches a free-text note to the phase result.
func (w *W) Note(s string) { w.cur.Notes = append(w.cur.Notes, s) }

// Sample keeps a few written-out cases for the evidence file.
func (w *W) Sample(v any) {
	if len(w.cur.Samples) < maxSamples {
		w.cur.Samples = append(w.cur.Samples, v)
	}
}

// WantSample reports whether another sample is still wanted (to avoid building them needlessly).
func (w *W) WantSample() bool { return len(w.cur.Samples) < maxSamples }

// Trie enumerates alpha^[minLen..maxLen] level by level; this worker takes the subtrees whose
// first two symbols hash to its shard. A level that cannot be finished inside the budget is
// reported as not completed. Every string is one state, every appended symbol one transition.
func (w *W) Trie(alpha []string, minLen, maxLen int) {
	n := len(alpha)
	w.cur.AlphaSize = n
	w.cur.MinLevel = minLen
	w.cur.Complete = true
	for L := minLen; L <= maxLen; L++ {
		// do not start a level that cannot finish inside the budget: the decision uses the
		// measured evaluation rate of the levels done so far and the exact size of the level
		if el := time.Since(w.start); el > 2*time.Second && w.cur.Evals > 100000 {
			rate := float64(w.cur.Evals) / el.Seconds()
			size := 1.0
			for i := 0; i < L; i++ {
				size *= float64(n)
			}
			est := time.Duration(size / float64(w.NShards) / rate * float64(time.Second))
			if est > 2*w.Remaining() {
				w.cur.Complete = false
				w.cur.Levels = append(w.cur.Levels, false)
				break
			}
		}
		ok := w.trieLevel(alpha, L)
		w.cur.Levels = append(w.cur.Levels, ok)
		if !ok {
			w.cur.Complete = false
			break
		}
	}
}

func (w *W) trieLevel(alpha []string, L int) bool {
	n := len(alpha)
	if L == 0 {
		if w.Shard == 0 {
			w.cur.States++
			w.Case("", "")
		}
		return true
	}
	idx := make([]int, L)
	buf := make([]byte, 0, 256)
	// shard key: first two symbols (first one when L == 1)
	var rec func(d int, buf []byte) bool
	rec = func(d int, buf []byte) bool {
		if d == L {
			w.cur.States++
			w.cur.Transitions++
			w.Case(string(buf), "")
			return !w.Expired()
		}
		for i := 0; i < n; i++ {
			idx[d] = i
			if d == 0 && L == 1 && !w.Mine(i) {
				continue
			}
			if d == 1 && !w.Mine(idx[0]*n+i) {
				continue
			}
			if !rec(d+1, append(buf, alpha[i]...)) {
				return false
			}
		}
		return true
	}
	return rec(0, buf)
}

// Each enumerates indices [0,n) sharded round-robin.
func (w *W) Each(n int, f func(i int)) {
	w.cur.Complete = true
	for i := 0; i < n; i++ {
		if !w.Mine(i) {
			continue
		}
		if w.Expired() {
			w.cur.Complete = false
			return
		}
		f(i)
	}
}

// Item evaluates a listed case as one state reached by one transition.
func (w *W) Item(input, aux string) {
	w.cur.States++
	w.cur.Transitions++
	w.Case(input, aux)
}

// Finish marks a hand-enumerated phase complete unless its budget expired.
func (w *W) Finish() { w.cur.Complete = !w.expired }

// Report records a violation found outside Case (phases that evaluate in their own goroutines).
func (w *W) Report(input, aux, kind, detail string) {
	w.curIn, w.curAux = input, aux
	w.Fail(kind, detail)
}

// CountEvals adds evaluations performed outside Case.
func (w *W) CountEvals(n int) { w.cur.Evals += int64(n) }

// MarkIncomplete flags the current phase as not completely enumerated.
func (w *W) MarkIncomplete() { w.cur.Complete = false }
