package fw

import (
	"bytes"
	"context"
	"encoding/hex"
	"encoding/json"
	"fmt"
	"os"
	"os/exec"
	"path/filepath"
	"runtime"
	"sort"
	"strconv"
	"strings"
	"sync"
	"time"
)

// Root is the verification directory.
func Root() string {
	if r := os.Getenv("VERIF_ROOT"); r != "" {
		return r
	}
	return "/verif"
}

// MergedPhase aggregates one phase over all shards.
type MergedPhase struct {
	Name            string           `json:"name"`
	Space           string           `json:"space"`
	Complete        bool             `json:"complete"`
	LevelsCompleted int              `json:"levels_completed,omitempty"` // highest symbol count fully enumerated
	LevelPartial    int              `json:"level_partial,omitempty"`
	AlphaSize       int              `json:"alphabet_size,omitempty"`
	Evals           int64            `json:"evaluations"`
	States          int64            `json:"states"`
	Transitions     int64            `json:"transitions"`
	Traces          int64            `json:"traces_validated_against_impl"`
	Nontrivial      int64            `json:"distinct_nontrivial"`
	DistinctOutcome int              `json:"distinct_outcomes"`
	OutcomeCap      bool             `json:"distinct_outcomes_capped,omitempty"`
	NViol           int64            `json:"violations"`
	Extra           map[string]int64 `json:"extra,omitempty"`
	Notes           []string         `json:"notes,omitempty"`
	WallS           float64          `json:"wall_s"`
	Samples         []any            `json:"-"`
	Violations      []Violation      `json:"-"`
	outcomes        map[uint64]struct{}
}

// Merged is the whole run.
type Merged struct {
	Phases []*MergedPhase
}

// Phase finds a merged phase by name.
func (m *Merged) Phase(name string) *MergedPhase {
	for _, p := range m.Phases {
		if p.Name == name {
			return p
		}
	}
	return nil
}

type finding struct {
	Status   string `json:"status"` // "finding" | "fixed"
	Property string `json:"property"`
	Phase    string `json:"phase,omitempty"`
	Kind     string `json:"kind,omitempty"`
	InputHex string `json:"input_hex,omitempty"`
	Aux      string `json:"aux,omitempty"`
	Commit   string `json:"commit,omitempty"`
	What     string `json:"what"`
}

func loadFindings() []finding {
	var f struct {
		Entries []finding `json:"entries"`
	}
	b, err := os.ReadFile(filepath.Join(Root(), "known_findings.json"))
	if err != nil {
		return nil
	}
	if err := json.Unmarshal(b, &f); err != nil {
		fmt.Fprintln(os.Stderr, "known_findings.json:", err)
		os.Exit(2)
	}
	return f.Entries
}

func matchFinding(fs []finding, v Violation) *finding {
	for i := range fs {
		f := &fs[i]
		if f.Status != "finding" || f.Property != v.Property {
			continue
		}
		if f.Phase != "" && f.Phase != v.Phase {
			continue
		}
		if f.Kind != "" && f.Kind != v.Kind {
			continue
		}
		if f.InputHex != v.InputHex || f.Aux != v.Aux {
			continue
		}
		return f
	}
	return nil
}

type workerOut struct {
	res    WorkerResult
	ok     bool
	stderr string
	err    error
	killed bool
}

// Drive runs a check end to end. Returns the process exit code.
func Drive(c *Check, tier string, seed int64, nworkers int, only string) int {
	t0 := time.Now()
	if nworkers <= 0 {
		nworkers = runtime.NumCPU()
		if nworkers > 16 {
			nworkers = 16
		}
	}
	budgetS := c.QuickS
	if tier == "thorough" {
		budgetS = c.ThoroughS
	}
	if v := os.Getenv("VERIF_BUDGET_S"); v != "" {
		if n, err := strconv.Atoi(v); err == nil && n > 0 {
			budgetS = n
		}
	}
	budget := time.Duration(budgetS) * time.Second
	self, _ := os.Executable()
	jdir, err := os.MkdirTemp(shmDir(), "vcheck-journal-")
	if err != nil {
		fmt.Fprintln(os.Stderr, "ENGINE-ERROR:", err)
		return 2
	}
	defer os.RemoveAll(jdir)

	outs := make([]workerOut, nworkers)
	var wg sync.WaitGroup
	for i := 0; i < nworkers; i++ {
		wg.Add(1)
		go func(i int) {
			defer wg.Done()
			ctx, cancel := context.WithTimeout(context.Background(), budget*2+120*time.Second)
			defer cancel()
			args := []string{"-worker", "-prop", c.ID, "-tier", tier, "-shard", strconv.Itoa(i), "-nshards", strconv.Itoa(nworkers),
				"-seed", strconv.FormatInt(seed, 10), "-budget", strconv.Itoa(budgetS), "-journal", filepath.Join(jdir, fmt.Sprintf("j%d", i))}
			if only != "" {
				args = append(args, "-phase", only)
			}
			cmd := exec.CommandContext(ctx, self, args...)
			cmd.Env = append(os.Environ(), "GOMAXPROCS=1")
			var so, se bytes.Buffer
			cmd.Stdout, cmd.Stderr = &so, &se
			err := cmd.Run()
			o := &outs[i]
			o.err = err
			o.stderr = tail(se.String(), 3000)
			if ctx.Err() != nil {
				o.killed = true
			}
			if err == nil {
				if jerr := json.Unmarshal(so.Bytes(), &o.res); jerr == nil {
					o.ok = true
				} else {
					o.err = fmt.Errorf("bad worker json: %v", jerr)
				}
			}
		}(i)
	}
	wg.Wait()

	m := &Merged{}
	for _, p := range c.activePhases(tier) {
		if only != "" && p.Name != only {
			continue
		}
		m.Phases = append(m.Phases, &MergedPhase{Name: p.Name, Space: p.Space, Complete: true, outcomes: map[uint64]struct{}{}, LevelsCompleted: -1})
	}
	var engineErrs []string
	var crashViol []Violation
	for i, o := range outs {
		if !o.ok {
			// worker died or hung: the journal names the case it was evaluating
			ph, in, aux, jok := ReadJournal(filepath.Join(jdir, fmt.Sprintf("j%d", i)))
			if !jok {
				engineErrs = append(engineErrs, fmt.Sprintf("worker %d failed without journal: %v\n%s", i, o.err, o.stderr))
				continue
			}
			if phaseIsLongEval(c, ph) {
				engineErrs = append(engineErrs, fmt.Sprintf("worker %d did not finish phase %s (an exploration phase: no verdict about the implementation is drawn from that): %v\n%s", i, ph, o.err, o.stderr))
				continue
			}
			kind, detail, confirmed := confirmCrash(self, c, tier, ph, in, aux)
			if !confirmed && (o.killed || strings.Contains(o.stderr, "fatal error") || strings.Contains(o.stderr, "deadlock")) {
				// the case alone is fine: the failure depends on the calls made before it in this process.
				// A worker shard is deterministic, so it is re-run once; the same death at the same case is a
				// reproducible history-dependent failure (the history is the shard's enumeration order).
				haux := fmt.Sprintf("shard=%d/%d seed=%d budget=%d", i, nworkers, seed, budgetS)
				ph2, in2, what, again := rerunShard(self, c, tier, ph, haux, budget)
				if again && ph2 == ph && in2 == in {
					crashViol = append(crashViol, Violation{Property: c.ID, Phase: ph, Kind: "fails-after-history", InputHex: hex.EncodeToString([]byte(in)),
						InputStr: quoteShort(in), Aux: haux,
						Detail: "the call is fine in a fresh process but " + what + " after the call history of this worker shard (deterministic: the shard was re-run and died at the same case); " + firstLineWith(o.stderr, "fatal error")})
					continue
				}
			}
			if confirmed {
				crashViol = append(crashViol, Violation{Property: c.ID, Phase: ph, Kind: kind, InputHex: hex.EncodeToString([]byte(in)),
					InputStr: quoteShort(in), Aux: aux, Detail: detail})
			} else {
				engineErrs = append(engineErrs, fmt.Sprintf("worker %d failed (killed=%v, err=%v) on phase %s input %s but the case does not reproduce alone: %s\n%s",
					i, o.killed, o.err, ph, quoteShort(in), detail, o.stderr))
			}
			continue
		}
		if o.res.EngineError != "" {
			engineErrs = append(engineErrs, fmt.Sprintf("worker %d: %s", i, o.res.EngineError))
		}
		for _, pr := range o.res.Phases {
			if os.Getenv("VERIF_DEBUG") != "" {
				fmt.Fprintf(os.Stderr, "worker %d phase %s levels=%v complete=%v evals=%d wall=%.2f\n", i, pr.Name, pr.Levels, pr.Complete, pr.Evals, pr.WallS)
			}
			mp := m.Phase(pr.Name)
			if mp == nil {
				continue
			}
			mp.Evals += pr.Evals
			mp.States += pr.States
			mp.Transitions += pr.Transitions
			mp.Traces += pr.Traces
			mp.Nontrivial += pr.Nontrivial
			mp.NViol += pr.NViol
			if pr.WallS > mp.WallS {
				mp.WallS = pr.WallS
			}
			if pr.AlphaSize > 0 {
				mp.AlphaSize = pr.AlphaSize
			}
			if !pr.Complete {
				mp.Complete = false
			}
			if pr.Levels != nil {
				done := pr.MinLevel - 1
				for li, ok := range pr.Levels {
					if ok {
						done = pr.MinLevel + li
					} else {
						break
					}
				}
				if mp.LevelsCompleted == -1 || done < mp.LevelsCompleted {
					mp.LevelsCompleted = done
				}
				if top := pr.MinLevel + len(pr.Levels) - 1; !pr.Complete && top > mp.LevelPartial {
					mp.LevelPartial = top
				}
			}
			for _, h := range pr.Outcomes {
				mp.outcomes[h] = struct{}{}
			}
			mp.OutcomeCap = mp.OutcomeCap || pr.OutcomeCap
			for k, v := range pr.Extra {
				if mp.Extra == nil {
					mp.Extra = map[string]int64{}
				}
				if strings.HasPrefix(k, "max_") {
					if v > mp.Extra[k] {
						mp.Extra[k] = v
					}
				} else {
					mp.Extra[k] += v
				}
			}
			for _, n := range pr.Notes {
				if len(mp.Notes) < 12 {
					mp.Notes = append(mp.Notes, n)
				}
			}
			for k := range pr.Violations {
				pr.Violations[k].Shard = fmt.Sprintf("shard=%d/%d seed=%d budget=%d", i, nworkers, seed, budgetS)
			}
			mp.Violations = append(mp.Violations, pr.Violations...)
			for _, s := range pr.Samples {
				if len(mp.Samples) < maxSamples {
					mp.Samples = append(mp.Samples, s)
				}
			}
		}
	}
	for _, mp := range m.Phases {
		mp.DistinctOutcome = len(mp.outcomes)
		if mp.LevelsCompleted == -1 {
			mp.LevelsCompleted = 0
		}
		if mp.LevelPartial <= mp.LevelsCompleted {
			mp.LevelPartial = 0
		}
	}

	if len(engineErrs) > 0 {
		for _, e := range engineErrs {
			fmt.Fprintln(os.Stderr, "ENGINE-ERROR:", e)
		}
		return 2
	}

	// collect, order (shortest input first), confirm in fresh processes, classify
	var all []Violation
	all = append(all, crashViol...)
	var auxCov map[string]any
	if c.Aux != nil && only == "" {
		var av []Violation
		av, auxCov = c.Aux(tier)
		all = append(all, av...)
		crashViol = append(crashViol, av...) // counted like crash violations (not part of any phase)
	}
	for _, mp := range m.Phases {
		all = append(all, mp.Violations...)
	}
	sort.SliceStable(all, func(i, j int) bool {
		if len(all[i].InputHex) != len(all[j].InputHex) {
			return len(all[i].InputHex) < len(all[j].InputHex)
		}
		return all[i].Key() < all[j].Key()
	})
	fs := loadFindings()
	var newViol, known []Violation
	seenKey := map[string]bool{}
	unconfirmed := 0
	for _, v := range all {
		if seenKey[v.Key()] {
			continue
		}
		seenKey[v.Key()] = true
		if f := matchFinding(fs, v); f != nil {
			known = append(known, v)
			fmt.Printf("KNOWN-FINDING: property=%s %s (phase %s, input %s)\n", c.ID, f.What, v.Phase, v.InputStr)
			continue
		}
		if len(newViol) >= 12 {
			continue // enough replay artefacts; total count is still reported
		}
		if v.Kind != "fatal" && v.Kind != "hang" && v.Kind != "race-detector" && v.Kind != "fails-after-history" && !confirmViolation(self, c, tier, v) {
			// The case alone is fine in a fresh process. If re-running the worker shard that reported it reports the
			// same violation again, the failure is a deterministic function of the calls the shard made before it:
			// a history-dependent violation of the implementation (state carried from one call to the next).
			if v.Shard != "" && reproducesInShard(self, c, tier, v) {
				v.History = true
				v.Detail = "history-dependent: the case passes as the only call of a fresh process and fails again, identically, every time worker " + v.Shard + " is re-run (the calls that shard makes before it are the history) | " + v.Detail
				newViol = append(newViol, v)
				continue
			}
			unconfirmed++
			fmt.Fprintf(os.Stderr, "ENGINE-ERROR: violation did not reproduce identically in fresh processes: %s %s %s\n", v.Phase, v.InputStr, v.Detail)
			continue
		}
		newViol = append(newViol, v)
	}
	if unconfirmed > 0 && len(newViol) == 0 {
		return 2
	}

	total := int64(len(crashViol))
	for _, mp := range m.Phases {
		total += mp.NViol
	}
	newCount := total - int64(len(known))
	if len(newViol) == 0 {
		newCount = 0
	}

	writeEvidence(c, tier, seed, m, time.Since(t0).Seconds(), int(newCount), len(known), budgetS, nworkers, auxCov)

	rc := 0
	for _, v := range newViol {
		path := writeReplay(v)
		fmt.Printf("VIOLATION property=%s replay=%s\n", c.ID, path)
		fmt.Printf("  phase=%s kind=%s input=%s aux=%q\n  %s\n", v.Phase, v.Kind, v.InputStr, v.Aux, v.Detail)
		rc = 1
	}
	// summary
	for _, mp := range m.Phases {
		lv := ""
		if mp.AlphaSize > 0 {
			lv = fmt.Sprintf(" alphabet=%d levels_completed=%d", mp.AlphaSize, mp.LevelsCompleted)
			if mp.LevelPartial > 0 {
				lv += fmt.Sprintf(" (level %d partial)", mp.LevelPartial)
			}
		}
		fmt.Printf("phase %-28s evals=%d states=%d traces=%d nontrivial=%d outcomes=%d complete=%v%s viol=%d %.1fs\n",
			mp.Name, mp.Evals, mp.States, mp.Traces, mp.Nontrivial, mp.DistinctOutcome, mp.Complete, lv, mp.NViol, mp.WallS)
	}
	if rc == 0 {
		fmt.Printf("OK property=%s tier=%s violations=0 known_findings=%d wall=%.1fs\n", c.ID, tier, len(known), time.Since(t0).Seconds())
	}
	return rc
}

func tail(s string, n int) string {
	if len(s) > n {
		return s[len(s)-n:]
	}
	return s
}

func quoteShort(in string) string {
	q := fmt.Sprintf("%q", in)
	if len(q) > 300 {
		q = q[:300] + "...(" + fmt.Sprint(len(in)) + " bytes)"
	}
	return q
}

// confirmCrash re-runs the journalled case alone in fresh processes (3x). A Go fatal error
// (stack exhaustion) or a timeout that reproduces every time is a violation; anything else
// is an engine problem.
func confirmCrash(self string, c *Check, tier, phase, in, aux string) (kind, detail string, confirmed bool) {
	v := Violation{Property: c.ID, Phase: phase, Kind: "crash", InputHex: hex.EncodeToString([]byte(in)), Aux: aux}
	f, err := os.CreateTemp("", "vcheck-crash-*.json")
	if err != nil {
		return "", err.Error(), false
	}
	defer os.Remove(f.Name())
	json.NewEncoder(f).Encode(v)
	f.Close()
	kinds := map[string]int{}
	for i := 0; i < 3; i++ {
		ctx, cancel := context.WithTimeout(context.Background(), 60*time.Second)
		cmd := exec.CommandContext(ctx, self, "-replay", f.Name(), "-tier", tier)
		var se bytes.Buffer
		cmd.Stderr = &se
		cmd.Stdout = &se
		err := cmd.Run()
		timedOut := ctx.Err() != nil
		cancel()
		switch {
		case timedOut:
			kinds["hang"]++
			detail = "single case did not return within 60 s in a fresh process (3 of 3 runs)"
		case err != nil && strings.Contains(se.String(), "fatal error"):
			kinds["fatal"]++
			detail = firstLineWith(se.String(), "fatal error")
		case err != nil && strings.Contains(se.String(), "stack overflow"):
			kinds["fatal"]++
			detail = "goroutine stack overflow"
		default:
			kinds["other"]++
			detail = tail(se.String(), 400)
		}
	}
	if kinds["hang"] == 3 {
		return "hang", detail, true
	}
	if kinds["fatal"] == 3 {
		return "fatal", detail, true
	}
	return "", detail, false
}

func firstLineWith(s, sub string) string {
	for _, l := range strings.Split(s, "\n") {
		if strings.Contains(l, sub) {
			return l
		}
	}
	return sub
}

// confirmViolation replays the case 5x in fresh processes; all must report the same kind+detail.
func confirmViolation(self string, c *Check, tier string, v Violation) bool {
	f, err := os.CreateTemp("", "vcheck-confirm-*.json")
	if err != nil {
		return false
	}
	defer os.Remove(f.Name())
	json.NewEncoder(f).Encode(v)
	f.Close()
	for i := 0; i < 5; i++ {
		ctx, cancel := context.WithTimeout(context.Background(), 120*time.Second)
		cmd := exec.CommandContext(ctx, self, "-replay", f.Name(), "-tier", tier, "-json")
		var so bytes.Buffer
		cmd.Stdout = &so
		cmd.Run()
		cancel()
		var got []Violation
		if json.Unmarshal(so.Bytes(), &got) != nil {
			return false
		}
		// the same kind of violation on the same case in every fresh process; the detail text may carry values that
		// are not stable between processes (addresses turned into offsets by a token that is not a slice of the input)
		same := false
		for _, g := range got {
			if g.Kind == v.Kind {
				same = true
			}
		}
		if !same {
			return false
		}
	}
	return true
}

func writeReplay(v Violation) string {
	dir := filepath.Join(Root(), "replays")
	os.MkdirAll(dir, 0o755)
	name := fmt.Sprintf("%s-%s-%016x.json", v.Property, sanitize(v.Phase), Hash(v.Key()))
	path := filepath.Join(dir, name)
	type replay struct {
		Violation
		UnitTest string `json:"unit_test"`
		HowTo    string `json:"how_to_replay"`
	}
	r := replay{Violation: v,
		HowTo:    "cd /verif && bin/check " + v.Property + " replay " + path,
		UnitTest: unitTestFor(v),
	}
	b, _ := json.MarshalIndent(r, "", " ")
	os.WriteFile(path, b, 0o644)
	return path
}

func hexToStr(h string) string {
	b, _ := hex.DecodeString(h)
	if len(b) > 2000 {
		b = b[:2000]
	}
	return string(b)
}

func sanitize(s string) string {
	var b strings.Builder
	for _, r := range s {
		if (r >= 'a' && r <= 'z') || (r >= 'A' && r <= 'Z') || (r >= '0' && r <= '9') || r == '_' {
			b.WriteRune(r)
		} else {
			b.WriteByte('_')
		}
	}
	return b.String()
}

func writeEvidence(c *Check, tier string, seed int64, m *Merged, wall float64, nviol, nknown, budgetS, nworkers int, auxCov map[string]any) {
	var evals, states, trans, traces, nontriv int64
	var samples []any
	exhaustive := true
	outcomes := 0
	for _, mp := range m.Phases {
		evals += mp.Evals
		states += mp.States
		trans += mp.Transitions
		traces += mp.Traces
		nontriv += mp.Nontrivial
		outcomes += mp.DistinctOutcome
		if !mp.Complete {
			exhaustive = false
		}
		for _, s := range mp.Samples {
			if len(samples) < 12 {
				samples = append(samples, map[string]any{"phase": mp.Name, "case": s})
			}
		}
	}
	if len(samples) == 0 {
		samples = append(samples, "no sample recorded")
	}
	cov := map[string]any{
		"evaluations":                   evals,
		"states":                        states,
		"transitions":                   trans,
		"traces_validated_against_impl": traces,
		"distinct_nontrivial":           nontriv,
		"distinct_outcomes":             outcomes,
		"rule":                          c.Rule,
		"samples":                       samples,
		"exhaustive":                    exhaustive,
		"exhaustive_note":               "exhaustive=true means every phase enumerated its stated finite space completely; a phase with a partial level lists levels_completed and level_partial and only the completed levels count",
		"phases":                        m.Phases,
		"budget_s":                      budgetS,
		"worker_processes":              nworkers,
		"known_findings_matched":        nknown,
	}
	for k, v := range auxCov {
		cov[k] = v
	}
	if c.Post != nil {
		c.Post(m, cov)
	}
	ev := map[string]any{
		"property_id": c.ID,
		"tier":        tier,
		"seed":        seed,
		"level":       c.Level,
		"coverage":    cov,
		"assumptions": c.Assumptions,
		"wall_s":      wall,
		"violations":  nviol,
	}
	dir := filepath.Join(Root(), "evidence")
	os.MkdirAll(dir, 0o755)
	b, _ := json.MarshalIndent(ev, "", " ")
	if err := os.WriteFile(filepath.Join(dir, c.ID+".json"), b, 0o644); err != nil {
		fmt.Fprintln(os.Stderr, "ENGINE-ERROR: evidence:", err)
	}
}

// ReplayFile replays a violation file; prints JSON list of violations (json=true) or human lines.
func ReplayFile(path, tier string, asJSON bool) int {
	b, err := os.ReadFile(path)
	if err != nil {
		fmt.Fprintln(os.Stderr, err)
		return 2
	}
	var v Violation
	if err := json.Unmarshal(b, &v); err != nil {
		fmt.Fprintln(os.Stderr, err)
		return 2
	}
	c := Lookup(v.Property)
	if c == nil {
		fmt.Fprintln(os.Stderr, "unknown property", v.Property)
		return 2
	}
	in, _ := hex.DecodeString(v.InputHex)
	if v.Kind == "fails-after-history" {
		self, _ := os.Executable()
		ph, in2, what, died := rerunShard(self, c, tier, v.Phase, v.Aux, 0)
		if died && ph == v.Phase && in2 == string(in) {
			fmt.Printf("VIOLATION property=%s replay=%s\n  phase=%s kind=%s input=%s aux=%q\n  %s\n", v.Property, path, v.Phase, v.Kind, quoteShort(string(in)), v.Aux, what)
			return 1
		}
		fmt.Printf("replay: the worker shard did not die at the recorded case again (property=%s phase=%s)\n", v.Property, v.Phase)
		return 0
	}
	if v.History {
		self, _ := os.Executable()
		orig := v
		orig.History = false
		if i := strings.Index(orig.Detail, " | "); i >= 0 {
			orig.Detail = orig.Detail[i+3:]
		}
		if reproducesInShard(self, c, tier, orig) {
			fmt.Printf("VIOLATION property=%s replay=%s\n  phase=%s kind=%s input=%s aux=%q\n  %s\n", v.Property, path, v.Phase, v.Kind, quoteShort(string(in)), v.Aux, v.Detail)
			return 1
		}
		fmt.Printf("replay: re-running worker %s did not report the recorded violation again (property=%s phase=%s)\n", v.Shard, v.Property, v.Phase)
		return 0
	}
	got, eerr := ReplayCase(c, tier, v.Phase, string(in), v.Aux)
	if eerr != "" {
		fmt.Fprintln(os.Stderr, "ENGINE-ERROR:", eerr)
		return 2
	}
	if asJSON {
		if got == nil {
			got = []Violation{}
		}
		json.NewEncoder(os.Stdout).Encode(got)
		return 0
	}
	if len(got) == 0 {
		fmt.Printf("replay: no violation (property=%s phase=%s input=%s)\n", v.Property, v.Phase, quoteShort(string(in)))
		return 0
	}
	for _, g := range got {
		fmt.Printf("VIOLATION property=%s replay=%s\n  phase=%s kind=%s input=%s aux=%q\n  %s\n", g.Property, path, g.Phase, g.Kind, g.InputStr, g.Aux, g.Detail)
	}
	return 1
}

func shmDir() string {
	if st, err := os.Stat("/dev/shm"); err == nil && st.IsDir() {
		return "/dev/shm"
	}
	return ""
}

// reproducesInShard re-runs the worker shard that reported v (that phase only) twice and reports whether the same
// violation (same key, same detail) comes out both times.
func reproducesInShard(self string, c *Check, tier string, v Violation) bool {
	var shard, n, budgetS int
	var seed int64
	if _, err := fmt.Sscanf(v.Shard, "shard=%d/%d seed=%d budget=%d", &shard, &n, &seed, &budgetS); err != nil {
		return false
	}
	// first the phase alone (twice); if the history lies in an earlier phase of the shard, the whole shard (twice)
	return reproducesInShardRun(self, c, tier, v, shard, n, budgetS, seed, true) || reproducesInShardRun(self, c, tier, v, shard, n, budgetS, seed, false)
}

func reproducesInShardRun(self string, c *Check, tier string, v Violation, shard, n, budgetS int, seed int64, phaseOnly bool) bool {
	for round := 0; round < 2; round++ {
		ctx, cancel := context.WithTimeout(context.Background(), time.Duration(budgetS)*2*time.Second+120*time.Second)
		args := []string{"-worker", "-prop", c.ID, "-tier", tier, "-shard", strconv.Itoa(shard), "-nshards", strconv.Itoa(n),
			"-seed", strconv.FormatInt(seed, 10), "-budget", strconv.Itoa(budgetS)}
		if phaseOnly {
			args = append(args, "-phase", v.Phase)
		}
		cmd := exec.CommandContext(ctx, self, args...)
		cmd.Env = append(os.Environ(), "GOMAXPROCS=1")
		var so bytes.Buffer
		cmd.Stdout = &so
		err := cmd.Run()
		cancel()
		if err != nil {
			return false
		}
		var res WorkerResult
		if json.Unmarshal(so.Bytes(), &res) != nil {
			return false
		}
		found := false
		for _, pr := range res.Phases {
			for _, g := range pr.Violations {
				if g.Key() == v.Key() && g.Detail == v.Detail {
					found = true
				}
			}
		}
		if !found {
			return false
		}
	}
	return true
}

// rerunShard runs one worker shard of one phase again and reports whether it died, and where.
func rerunShard(self string, c *Check, tier, phase, haux string, budget time.Duration) (ph, in, what string, died bool) {
	var shard, n int
	var seed int64
	var budgetS int
	if _, err := fmt.Sscanf(haux, "shard=%d/%d seed=%d budget=%d", &shard, &n, &seed, &budgetS); err != nil {
		return "", "", "", false
	}
	jdir, err := os.MkdirTemp(shmDir(), "vcheck-rerun-")
	if err != nil {
		return "", "", "", false
	}
	defer os.RemoveAll(jdir)
	j := filepath.Join(jdir, "j")
	ctx, cancel := context.WithTimeout(context.Background(), time.Duration(budgetS)*2*time.Second+120*time.Second)
	defer cancel()
	cmd := exec.CommandContext(ctx, self, "-worker", "-prop", c.ID, "-tier", tier, "-shard", strconv.Itoa(shard), "-nshards", strconv.Itoa(n),
		"-seed", strconv.FormatInt(seed, 10), "-budget", strconv.Itoa(budgetS), "-journal", j, "-phase", phase)
	cmd.Env = append(os.Environ(), "GOMAXPROCS=1")
	var se bytes.Buffer
	cmd.Stderr = &se
	err = cmd.Run()
	if err == nil {
		return "", "", "", false
	}
	what = "the process dies"
	if ctx.Err() != nil {
		what = "the call never returns"
	} else if strings.Contains(se.String(), "deadlock") {
		what = "the call blocks forever (all goroutines asleep)"
	}
	p, i, _, ok := ReadJournal(j)
	if !ok {
		return "", "", "", false
	}
	return p, i, what, true
}

var htmlProps = map[string]bool{"C02": true, "C04": true, "C07": true, "C11": true, "C13": true, "C15": true, "C17": true, "C19": true}

// unitTestFor renders a plain Go test (package libinjection, no explorer) that replays the case.
func unitTestFor(v Violation) string {
	in := hexToStr(v.InputHex)
	name := "TestReplay_" + v.Property + "_" + sanitize(v.Phase)
	call, show := "b, fp := IsSQLi(input)", "t.Logf(\"IsSQLi(%q) = (%v, %q)\", input, b, fp)"
	verdict := "b"
	if htmlProps[v.Property] {
		call, show = "b := IsXSS(input)", "t.Logf(\"IsXSS(%q) = %v\", input, b)"
	}
	var body string
	switch v.Kind {
	case "panic", "fatal", "hang", "no-termination-within-budget", "recursion-depth", "fails-after-history":
		body = "\tdefer func() {\n\t\tif r := recover(); r != nil {\n\t\t\tt.Fatalf(\"panicked: %v\", r)\n\t\t}\n\t}()\n\tdone := make(chan struct{})\n\tgo func() { defer close(done); " + strings.Replace(call, ":=", "=", 1) + " }()\n"
		body = "\tvar b bool\n\tvar fp string\n\t_, _ = b, fp\n" + body + "\tselect {\n\tcase <-done:\n\tcase <-time.After(30 * time.Second):\n\t\tt.Fatal(\"did not return within 30 s\")\n\t}\n"
		if htmlProps[v.Property] {
			body = strings.Replace(body, "\tvar fp string\n\t_, _ = b, fp\n", "\t_ = b\n", 1)
		}
	case "missed", "xss-missed", "scheme-missed":
		body = "\t" + call + "\n\t" + show + "\n\tif !" + verdict + " {\n\t\tt.Fatal(\"canonical attack not reported\")\n\t}\n"
	case "false-positive":
		body = "\t" + call + "\n\t" + show + "\n\tif " + verdict + " {\n\t\tt.Fatal(\"benign input reported\")\n\t}\n"
	default:
		body = "\t" + call + "\n\t" + show + "\n\t// the check compared this with: " + strings.ReplaceAll(v.Detail, "\n", " ") + "\n\t// (the full oracle needs the accessor in verif_hooks.go: bin/check " + v.Property + " replay <this file>)\n"
	}
	imports := "import \"testing\"\n"
	if strings.Contains(body, "time.After") {
		imports = "import (\n\t\"testing\"\n\t\"time\"\n)\n"
	}
	return fmt.Sprintf("// plain replay without the explorer: property %s, phase %s, kind %s (aux %q)\npackage libinjection\n\n%s\nfunc %s(t *testing.T) {\n\tinput := %q\n%s}\n", v.Property, v.Phase, v.Kind, v.Aux, imports, name, in, body)
}

func phaseIsLongEval(c *Check, name string) bool {
	for _, p := range c.Phases {
		if p.Name == name {
			return p.LongEval
		}
	}
	return false
}
