package fw

import (
	"encoding/json"
	"fmt"
	"os"
	"time"
)

// Phase is one exhaustively enumerated space with its oracle.
type Phase struct {
	Name  string
	Space string // human description of the enumerated space and its bounds
	// Share of the tier budget this phase may use (fractions are normalised over all phases).
	Share float64
	// Run enumerates the space of this worker's shard, calling w.Case / w.Item / w.Trie.
	Run func(w *W)
	// Eval judges one case; it is also what a replay file is fed to.
	Eval func(w *W, input, aux string)
	// Serial phases run in shard 0 only (global closures, small finite tables).
	Serial bool
	// LongEval: one Eval is itself a long exploration (many executions); a worker that is killed while
	// inside it says nothing about the implementation, so the driver never turns that into a `hang`.
	LongEval bool
	// ThoroughOnly phases are skipped in the quick tier.
	ThoroughOnly bool
}

// Check is the machinery for one property.
type Check struct {
	ID          string
	Level       string // evidence level
	Rule        string // how cases are enumerated / what makes one non-trivial
	Assumptions []string
	QuickS      int // wall budget in seconds
	ThoroughS   int
	Phases      []Phase
	// PanicOutOfScope: the property speaks about returned verdicts or about cost; a call that panics is the
	// subject of the totality properties (C01 / C02), not a violation of this one. Such cases are counted
	// (extra.cases_where_the_call_panicked) and skipped.
	PanicOutOfScope bool
	// Setup runs once per worker process before any phase (load tables, build models).
	Setup func(w *W) error
	// Aux runs once in the driver after the workers (auxiliary passes that need the go tool);
	// the violations it returns are reported without the fresh-process replay (kind must say why).
	Aux func(tier string) ([]Violation, map[string]any)
	// Post lets the driver add check-specific coverage keys after the merge.
	Post func(m *Merged, cov map[string]any)
}

var registry = map[string]*Check{}

// Register adds a check to the registry.
func Register(c *Check) {
	if c.Level == "" {
		c.Level = "model_checking"
	}
	if c.QuickS == 0 {
		c.QuickS = 40
	}
	if c.ThoroughS == 0 {
		c.ThoroughS = 600
	}
	registry[c.ID] = c
}

// Lookup finds a registered check.
func Lookup(id string) *Check { return registry[id] }

// IDs lists registered checks.
func IDs() []string {
	var out []string
	for k := range registry {
		out = append(out, k)
	}
	return out
}

func (c *Check) activePhases(tier string) []Phase {
	var out []Phase
	for _, p := range c.Phases {
		if p.ThoroughOnly && tier != "thorough" {
			continue
		}
		out = append(out, p)
	}
	return out
}

// RunWorker executes all phases for one shard and prints the JSON result.
func RunWorker(c *Check, tier string, shard, nshards int, seed int64, budget time.Duration, journal string, only string) {
	w := &W{Prop: c.ID, Tier: tier, Shard: shard, NShards: nshards, Seed: seed, PanicOutOfScope: c.PanicOutOfScope}
	res := WorkerResult{Shard: shard}
	if journal != "" {
		if err := w.OpenJournal(journal); err != nil {
			res.EngineError = "journal: " + err.Error()
		}
	}
	if c.Setup != nil && res.EngineError == "" {
		if err := c.Setup(w); err != nil {
			res.EngineError = "setup: " + err.Error()
		}
	}
	phases := c.activePhases(tier)
	total := 0.0
	for _, p := range phases {
		s := p.Share
		if s == 0 {
			s = 1
		}
		total += s
	}
	carry := time.Duration(0)
	for _, p := range phases {
		if res.EngineError != "" {
			break
		}
		if only != "" && p.Name != only {
			continue
		}
		s := p.Share
		if s == 0 {
			s = 1
		}
		pb := time.Duration(float64(budget)*s/total) + carry
		// a phase keeps at least a quarter of its own share, whatever the earlier ones overshot
		if floor := time.Duration(float64(budget) * s / total / 4); pb < floor {
			pb = floor
		}
		pr := PhaseResult{Name: p.Name, Space: p.Space}
		w.cur = &pr
		w.outcomes = map[uint64]struct{}{}
		w.eval = p.Eval
		w.Budget = pb
		w.start = time.Now()
		w.deadline = w.start.Add(pb)
		w.expired = false
		w.tick = 0
		if p.Serial && shard != 0 {
			pr.Complete = true
		} else {
			if p.Serial {
				w.NShards, w.Shard = 1, 0
			}
			func() {
				defer func() {
					if r := recover(); r != nil && w.EngineErr == "" {
						w.EngineErr = fmt.Sprintf("engine panic in phase %s: %v", p.Name, r)
					}
				}()
				p.Run(w)
			}()
			w.NShards, w.Shard = nshards, shard
		}
		used := time.Since(w.start)
		pr.WallS = used.Seconds()
		// unused time rolls over to later phases; an overshoot (a phase whose single step is slow) is taken from them
		carry = pb - used
		for h := range w.outcomes {
			pr.Outcomes = append(pr.Outcomes, h)
		}
		res.Phases = append(res.Phases, pr)
		if w.EngineErr != "" {
			res.EngineError = w.EngineErr
		}
	}
	enc := json.NewEncoder(os.Stdout)
	if err := enc.Encode(res); err != nil {
		fmt.Fprintln(os.Stderr, "encode:", err)
		os.Exit(3)
	}
}

// ReplayCase runs one phase's Eval on one case (fresh process) and returns its violations.
func ReplayCase(c *Check, tier, phase, input, aux string) ([]Violation, string) {
	w := &W{Prop: c.ID, Tier: tier, Shard: 0, NShards: 1, Replay: true, PanicOutOfScope: c.PanicOutOfScope}
	if c.Setup != nil {
		if err := c.Setup(w); err != nil {
			return nil, "setup: " + err.Error()
		}
	}
	for _, p := range c.Phases {
		if p.Name != phase {
			continue
		}
		pr := PhaseResult{Name: p.Name}
		w.cur = &pr
		w.outcomes = map[uint64]struct{}{}
		w.eval = p.Eval
		w.deadline = time.Now().Add(time.Hour)
		w.Case(input, aux)
		return pr.Violations, w.EngineErr
	}
	return nil, "no such phase " + phase
}
