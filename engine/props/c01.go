package props

import (
	"fmt"

	lib "github.com/corazawaf/libinjection-go"

	"verif/alpha"
	"verif/fw"
)

// C01 — IsSQLi is total.

func evalC01Public(w *fw.W, s, _ string) {
	arm(s)
	b, fp := lib.IsSQLi(s) // a panic is recovered by the framework and attributed to the implementation
	disarm(w)
	if hasNonWhite(s) {
		w.NonTrivial()
	}
	if b {
		w.OutcomeStr("T" + fp)
	} else {
		w.Outcome(0)
	}
	if w.WantSample() && b {
		w.Sample(map[string]any{"input": s, "sqli": b, "fingerprint": fp})
	}
}

// evalC01Traced additionally walks every scan step in all six modes: the scan offset must stay
// inside [0,len] and the tokenizer must finish within len+2 steps.
func evalC01Traced(w *fw.W, s, aux string) {
	evalC01Public(w, s, aux)
	for _, m := range sqlModes {
		toks, st, capped := lib.VerifSQLTokens(s, m)
		if capped {
			w.Fail("no-progress", fmt.Sprintf("mode %s: tokenizer still producing tokens after len+2=%d steps", modeName(m), len(s)+2))
			return
		}
		if st.Pos < 0 || st.Pos > len(s) {
			w.Fail("offset-range", fmt.Sprintf("mode %s: final scan offset %d outside [0,%d]", modeName(m), st.Pos, len(s)))
			return
		}
		for _, t := range toks {
			if t.After < 0 || t.After > len(s) || t.Before < 0 || t.Before > len(s) {
				w.Fail("offset-range", fmt.Sprintf("mode %s: scan offset %d->%d outside [0,%d]", modeName(m), t.Before, t.After, len(s)))
				return
			}
		}
		// every context evaluation (fold + whitelist) must return as well
		_ = lib.VerifSQLContext(s, m)
		w.Traces(1)
	}
}

var sqlOpeners = []string{"", "'", "\"", "`", "/*", "--", "#", "$$", "$a$", "q'(", "q'a", "n'", "e'", "u&'", "@`", "[", "0x", "1e", "1 "}
var sqlClosers = []string{"", "'", "*/", " or 1=1", "\n1"}

func runRep(w *fw.W, units, openers, closers []string, lens []int) {
	type fam struct{ o, u, c string }
	var fams []fam
	for _, o := range openers {
		for _, u := range units {
			for _, c := range closers {
				fams = append(fams, fam{o, u, c})
			}
		}
	}
	w.Each(len(fams), func(i int) {
		f := fams[i]
		for _, n := range lens {
			w.Item(alpha.Rep(f.o, f.u, f.c, n), fmt.Sprintf("opener=%q unit=%q closer=%q n=%d", f.o, f.u, f.c, n))
		}
	})
}

func init() {
	var cuts []string
	fw.Register(&fw.Check{
		ID:        "C01",
		QuickS:    45,
		ThoroughS: 720,
		Rule: "every string over the stated byte/fragment alphabets up to the completed level (each string is one trie state; " +
			"appending a symbol is one transition), every cut of every repository fixture, every opener+unit^k+closer repetition family; " +
			"non-trivial = contains a non-whitespace byte; distinct_outcomes = distinct (verdict,fingerprint) observations",
		Assumptions: []string{
			"inputs outside the enumerated alphabets/levels are not covered; alphabets are argued class-complete for the dispatch table in DESIGN.md 2.1",
			"a Go fatal error or hang kills only the worker; the journalled case is re-run alone 3x before it is reported",
		},
		Setup: func(w *fw.W) error {
			cuts = alpha.Cuts(fixtures(), "'\"`", 4096)
			return nil
		},
		Phases: []fw.Phase{
			{Name: "trie-S1-bytes", Space: "S1^<=4 (quick) / <=5 (thorough), public IsSQLi", Share: 3,
				Run: func(w *fw.W) { w.Trie(alpha.S1, 0, w.Pick(4, 5)) }, Eval: evalC01Public},
			{Name: "trie-S2-fragments", Space: "S2^<=3 (quick) / <=4 (thorough), IsSQLi + scan-offset trace in 6 modes + per-context evaluation", Share: 3,
				Run: func(w *fw.W) { w.Trie(alpha.S2, 1, w.Pick(3, 4)) }, Eval: evalC01Traced},
			{Name: "trie-S3-tokens", Space: "S3^<=4 (quick) / <=5 (thorough) token-class fragments, public IsSQLi", Share: 3,
				Run: func(w *fw.W) { w.Trie(alpha.S3, 1, w.Pick(4, 5)) }, Eval: evalC01Public},
			{Name: "trie-S3core-deep", Space: "S3core^<=6 (quick) / <=7 (thorough): 6-7 token windows reach the 5-token special cases", Share: 2,
				Run: func(w *fw.W) { w.Trie(alpha.S3core, 5, w.Pick(6, 7)) }, Eval: evalC01Public},
			{Name: "corpus-cuts", Space: "every prefix, suffix and prefix+quote of every repository fixture", Share: 1,
				Run: func(w *fw.W) {
					w.Each(len(cuts), func(i int) { w.Item(cuts[i], "") })
				}, Eval: evalC01Traced},
			{Name: "repetition", Space: "opener x unit in S1core^<=2 x closer at 4K (work-budget monitor armed); units S1core^<=1 (quick) / <=2 (thorough) at 16K and 64K (thorough)", Share: 2,
				Run: func(w *fw.W) {
					runRep(w, alpha.Units(alpha.S1core, 2), sqlOpeners, sqlClosers, []int{4096})
					lens := []int{16384}
					if w.Thorough() {
						lens = append(lens, 65536)
					}
					runRep(w, alpha.Units(alpha.S1core, w.Pick(1, 2)), sqlOpeners, sqlClosers, lens)
				}, Eval: evalC01Public},
		},
	})
}

func init() {
	c := fw.Lookup("C01")
	c.Phases = append(c.Phases, sqlExtraPhases(evalC01Traced, false)...)
}
