package props

import (
	"fmt"
	"strings"
	"sync"

	lib "github.com/corazawaf/libinjection-go"

	"verif/refsql"
)

var (
	sqlModelOnce sync.Once
	sqlModel     *refsql.Model
)

// sqlRef builds the SQL model over the project's own keyword table.
func sqlRef() *refsql.Model {
	sqlModelOnce.Do(func() { sqlModel = &refsql.Model{Table: lib.VerifSQLKeywords()} })
	return sqlModel
}

func refMode(flags int) refsql.Mode {
	var m refsql.Mode
	if flags&fSingle != 0 {
		m.Quote = '\''
	} else if flags&fDouble != 0 {
		m.Quote = '"'
	}
	m.MySQL = flags&fMysql != 0
	return m
}

func fmtImplTok(t lib.VerifSQLTok) string {
	return fmt.Sprintf("%c@%d+%d%s", t.Category, t.Pos, t.Len, openClose(t.StrOpen, t.StrClose, t.Count))
}

func fmtRefTok(t refsql.Tok) string {
	return fmt.Sprintf("%c@%d+%d%s", t.Type, t.Pos, t.Len, openClose(t.Open, t.Close, t.Count))
}

func openClose(o, c byte, n int) string {
	s := ""
	if o != 0 || c != 0 {
		s = fmt.Sprintf("[%s%s]", showByte(o), showByte(c))
	}
	if n != 0 {
		s += fmt.Sprintf("#%d", n)
	}
	return s
}

func showByte(b byte) string {
	if b == 0 {
		return "_"
	}
	if b >= 33 && b < 127 {
		return string([]byte{b})
	}
	return fmt.Sprintf("\\x%02x", b)
}

func fmtImplToksSQL(ts []lib.VerifSQLTok) string {
	var p []string
	for _, t := range ts {
		p = append(p, fmtImplTok(t))
	}
	return strings.Join(p, " ")
}

func fmtRefToksSQL(ts []refsql.Tok) string {
	var p []string
	for _, t := range ts {
		p = append(p, fmtRefTok(t))
	}
	return strings.Join(p, " ")
}

func sameTok(a lib.VerifSQLTok, b refsql.Tok) bool {
	return a.Category == b.Type && a.Pos == b.Pos && a.Len == b.Len && a.Val == b.Val && a.StrOpen == b.Open && a.StrClose == b.Close && a.Count == b.Count
}

// compareSteps: scan steps of the implementation vs the model.
func compareSteps(impl []lib.VerifSQLTok, ref []refsql.Step) string {
	if len(impl) != len(ref) {
		var r []refsql.Tok
		for _, s := range ref {
			r = append(r, s.Tok)
		}
		return fmt.Sprintf("token count impl=%d model=%d | impl: %s | model: %s", len(impl), len(ref), fmtImplToksSQL(impl), fmtRefToksSQL(r))
	}
	for i := range impl {
		if !sameTok(impl[i], ref[i].Tok) || impl[i].Before != ref[i].Before || impl[i].After != ref[i].After {
			return fmt.Sprintf("step %d impl=%s (%d->%d) val=%q model=%s (%d->%d) val=%q", i, fmtImplTok(impl[i]), impl[i].Before, impl[i].After, impl[i].Val,
				fmtRefTok(ref[i].Tok), ref[i].Before, ref[i].After, ref[i].Val)
		}
	}
	return ""
}

func compareToks(impl []lib.VerifSQLTok, ref []refsql.Tok) string {
	if len(impl) != len(ref) {
		return fmt.Sprintf("token count impl=%d model=%d | impl: %s | model: %s", len(impl), len(ref), fmtImplToksSQL(impl), fmtRefToksSQL(ref))
	}
	for i := range impl {
		if !sameTok(impl[i], ref[i]) {
			return fmt.Sprintf("token %d impl=%s val=%q model=%s val=%q | impl: %s | model: %s", i, fmtImplTok(impl[i]), impl[i].Val, fmtRefTok(ref[i]), ref[i].Val,
				fmtImplToksSQL(impl), fmtRefToksSQL(ref))
		}
	}
	return ""
}

func sameStats(a lib.VerifSQLStats, b refsql.Stats) bool {
	return a.DDX == b.DDX && a.Hash == b.Hash && a.Folds == b.Folds && a.Tokens == b.Tokens
}
