package props

import (
	"fmt"
	"strings"

	lib "github.com/corazawaf/libinjection-go"

	"verif/alpha"
	"verif/fw"
	"verif/refsql"
)

// C18 — SQL string literals end at their first real terminator, in every literal form.

type strOpener struct {
	name  string
	text  string // bytes before the content
	delim byte
	flags int  // parsing mode
	close byte // expected close mark when closed
}

func c18Openers() []strOpener {
	asis := fNone | fAnsi
	var out []strOpener
	for _, d := range []byte{'\'', '"', '`'} {
		ds := string([]byte{d})
		out = append(out,
			strOpener{"real@0" + ds, ds, d, asis, d},
			strOpener{"after-space" + ds, " " + ds, d, asis, d},
			strOpener{"after-number" + ds, "1" + ds, d, asis, d},
			strOpener{"at" + ds, "@" + ds, d, asis, d},
			strOpener{"atat" + ds, "@@" + ds, d, asis, d},
		)
	}
	out = append(out,
		strOpener{"virtual'", "", '\'', fSingle | fAnsi, '\''},
		strOpener{"virtual'mysql", "", '\'', fSingle | fMysql, '\''},
		strOpener{"virtual\"", "", '"', fDouble | fMysql, '"'},
		strOpener{"n'", "n'", '\'', asis, '\''}, strOpener{"N'", "N'", '\'', asis, '\''},
		strOpener{"e'", "e'", '\'', asis, '\''}, strOpener{"E'", "E'", '\'', asis, '\''},
		strOpener{"u&'", "u&'", '\'', asis, 'u'}, strOpener{"U&'", "U&'", '\'', asis, 'u'},
		strOpener{"1 n'", "1 n'", '\'', asis, '\''},
	)
	return out
}

var c18Tails = []string{"", " or 1"}

func findStep(toks []lib.VerifSQLTok, pos int) *lib.VerifSQLTok {
	for i := range toks {
		if toks[i].Pos == pos && (toks[i].StrOpen != 0 || toks[i].StrClose != 0 || toks[i].Category == 's' || toks[i].Category == 'v' || toks[i].Category == 'n' || toks[i].Category == 'f') {
			if toks[i].Before <= pos {
				return &toks[i]
			}
		}
	}
	return nil
}

var c18OpMap map[string]strOpener

func evalC18Quoted(w *fw.W, body, aux string) {
	parts := strings.SplitN(aux, "|", 2)
	op, ok := c18OpMap[parts[0]]
	if !ok {
		panic("opener " + aux)
	}
	in := op.text + body + parts[1]
	if in == "" {
		return
	}
	cs := len(op.text)
	end, closed := refsql.StringEnd(in, cs, op.delim)
	toks, _, _ := lib.VerifSQLTokens(in, op.flags)
	t := findStep(toks, cs)
	if t == nil {
		w.Fail("missing", fmt.Sprintf("%s: no literal token at content offset %d | %s", op.name, cs, fmtImplToksSQL(toks)))
		return
	}
	wantLen := end - cs
	if wantLen > 31 {
		wantLen = 31
	}
	wantAfter := len(in)
	wantClose := byte(0)
	if closed {
		wantAfter = end + 1
		wantClose = op.close
	}
	if t.Len != wantLen || t.StrClose != wantClose || t.After != wantAfter {
		w.Fail("first-terminator", fmt.Sprintf("%s: literal is len=%d close=%s resume=%d; first real terminator gives len=%d close=%s resume=%d | %s", op.name,
			t.Len, showByte(t.StrClose), t.After, wantLen, showByte(wantClose), wantAfter, fmtImplToksSQL(toks)))
		return
	}
	w.Traces(1)
	if closed {
		w.NonTrivial()
	}
	w.Outcome(uint64(end-cs)<<1 | uint64(wantClose&1))
}

func qClose(b byte) byte {
	switch b {
	case '(':
		return ')'
	case '[':
		return ']'
	case '{':
		return '}'
	case '<':
		return '>'
	}
	return b
}

func evalC18Q(w *fw.W, in, aux string) {
	// aux = prefix length of the q-opener (q' = 2, nq' = 3)
	pl := int(aux[0] - '0')
	b := in[pl]
	cl := qClose(b)
	cs := pl + 1
	end := -1
	for i := cs; i+1 < len(in); i++ {
		if in[i] == cl && in[i+1] == '\'' {
			end = i
			break
		}
	}
	toks, _, _ := lib.VerifSQLTokens(in, fNone|fAnsi)
	if len(toks) == 0 {
		w.Fail("missing", "no token")
		return
	}
	t := toks[0]
	wantLen, wantAfter, wantClose := len(in)-cs, len(in), byte(0)
	if end >= 0 {
		wantLen, wantAfter, wantClose = end-cs, end+2, 'q'
	}
	if wantLen > 31 {
		wantLen = 31
	}
	if t.Category != 's' || t.StrOpen != 'q' || t.Pos != cs || t.Len != wantLen || t.StrClose != wantClose || t.After != wantAfter {
		w.Fail("q-terminator", fmt.Sprintf("delimiter 0x%02x: token %s resume=%d; first close+quote gives s@%d+%d close=%s resume=%d", b, fmtImplTok(t), t.After, cs, wantLen, showByte(wantClose), wantAfter))
		return
	}
	w.Traces(1)
	if end >= 0 {
		w.NonTrivial()
	}
	w.Outcome(uint64(b)<<8 | uint64(wantLen))
}

func evalC18Dollar(w *fw.W, body, tag string) {
	opener := "$" + tag + "$"
	in := opener + body
	cs := len(opener)
	i := strings.Index(body, opener)
	toks, _, _ := lib.VerifSQLTokens(in, fNone|fAnsi)
	if len(toks) == 0 {
		w.Fail("missing", "no token")
		return
	}
	t := toks[0]
	wantLen, wantAfter, wantClose := len(body), len(in), byte(0)
	if i >= 0 {
		wantLen, wantAfter, wantClose = i, cs+i+len(opener), '$'
	}
	if wantLen > 31 {
		wantLen = 31
	}
	if t.Category != 's' || t.StrOpen != '$' || t.Pos != cs || t.Len != wantLen || t.StrClose != wantClose || t.After != wantAfter {
		w.Fail("dollar-terminator", fmt.Sprintf("tag %q: token %s resume=%d; first repetition of the tag gives s@%d+%d close=%s resume=%d", tag, fmtImplTok(t), t.After, cs, wantLen, showByte(wantClose), wantAfter))
		return
	}
	w.Traces(1)
	if i >= 0 {
		w.NonTrivial()
	}
	w.Outcome(uint64(len(tag))<<8 | uint64(wantLen))
}

func enumBodies(w *fw.W, alpha []string, maxL int, f func(body string)) {
	var rec func(b string, d int)
	rec = func(b string, d int) {
		if w.Expired() {
			return
		}
		f(b)
		if d == maxL {
			return
		}
		for _, a := range alpha {
			rec(b+a, d+1)
		}
	}
	rec("", 0)
}

func init() {
	ops := c18Openers()
	c18OpMap = map[string]strOpener{}
	for _, o := range ops {
		c18OpMap[o.name] = o
	}
	fw.Register(&fw.Check{
		ID:        "C18",
		QuickS:    60,
		ThoroughS: 600,
		Rule: "quoted: 25 opening forms (3 delimiters x real/after-space/after-number/@/@@, virtual quotes, n' N' e' E' u&' U&') x EVERY body over {delimiter, backslash, 'a', other quote}^<=10 (quick) / <=11 (thorough) x 2 tails, " +
			"judged by an independent first-real-terminator scanner (backslash parity back to the content start, doubled delimiter skipped as a pair): content length (clipped to 31), close mark and resume offset; " +
			"q-strings: all 223 delimiter bytes >= 33 x bodies over {b, close(b), quote, 'a'}^<=5 x 6 prefixes; dollar strings: 4 tags x bodies over {$, a, A, b}^<=7 (8 thorough); backslash runs of every length 0..80 and around 128..65536 behind fillers of 0..4098 bytes; non-trivial = the literal is closed",
		Assumptions: []string{"the oracle refsql.StringEnd is a forward scan written from the property statement; q-quote and dollar oracles are explicit loops / strings.Index"},
		Phases: []fw.Phase{
			{Name: "quoted-bodies", Space: "25 openers x {d, \\, a, other}^<=10/11 x 2 tails", Share: 5,
				Run: func(w *fw.W) {
					type job struct {
						op   strOpener
						tail string
						a0   string
					}
					var jobs []job
					for _, op := range ops {
						other := "\""
						if op.delim == '"' {
							other = "'"
						}
						_ = other
						for _, tl := range c18Tails {
							for _, a0 := range []string{"d", "\\", "a", "o"} {
								jobs = append(jobs, job{op, tl, a0})
							}
						}
					}
					maxL := w.Pick(10, 11)
					w.Each(len(jobs), func(i int) {
						j := jobs[i]
						d := string([]byte{j.op.delim})
						other := "\""
						if j.op.delim == '"' {
							other = "'"
						}
						al := []string{d, "\\", "a", other}
						first := map[string]string{"d": d, "\\": "\\", "a": "a", "o": other}[j.a0]
						aux := j.op.name + "|" + j.tail
						if j.a0 == "d" {
							w.Item("", aux) // the empty body once per (opener, tail)
						}
						var rec func(b string, depth int)
						rec = func(b string, depth int) {
							if w.Expired() {
								return
							}
							w.Item(b, aux)
							if depth == maxL {
								return
							}
							for _, a := range al {
								rec(b+a, depth+1)
							}
						}
						rec(first, 1)
					})
				}, Eval: evalC18Quoted},
			{Name: "quoted-bodies-wide", Space: "25 openers x every body over {d, \\, a, other quote, a 2-byte rune, a 3-byte rune, a 4-byte rune, a lone 0xE9, NUL, LF, U+005C-aliasing rune U+015C}^<=5 (quick) / <=6 (thorough) x 2 tails: what precedes a backslash run or the delimiter must not matter", Share: 2,
				Run: func(w *fw.W) {
					maxL := w.Pick(5, 6)
					w.Each(len(ops)*len(c18Tails), func(i int) {
						op := ops[i/len(c18Tails)]
						d := string([]byte{op.delim})
						other := "\""
						if op.delim == '"' {
							other = "'"
						}
						al := uniq([]string{d, "\\", "a", other, "\u00e9", "\u65e5", "\U0001f600", "\xe9", "\x00", "\n", "\u015c"}, alpha.DeltaSQL(), newByteAtoms())
						aux := op.name + "|" + c18Tails[i%len(c18Tails)]
						enumBodies(w, al, maxL, func(body string) { w.Item(body, aux) })
					})
				}, Eval: evalC18Quoted},
			{Name: "clip-boundary-bodies", Space: "25 openers x bodies of 26..36 bytes whose last bytes before the 31-byte value clip are each of {a, 2-byte rune, 3-byte rune, 4-byte rune, lone 0xE9, backslash + a} at every alignment x 2 tails: the reported content is exactly the first 31 bytes", Share: 1,
				Run: func(w *fw.W) {
					type it struct{ body, aux string }
					var items []it
					for _, op := range ops {
						for _, tl := range c18Tails {
							aux := op.name + "|" + tl
							for pad := 24; pad <= 33; pad++ {
								for _, mid := range []string{"a", "\u00e9", "\u65e5", "\U0001f600", "\xe9", "\\a", "\u00e9\u00e9", "\u65e5\u65e5"} {
									items = append(items, it{strings.Repeat("a", pad) + mid + "aaaa", aux}, it{strings.Repeat("a", pad) + mid + "aaaa" + string([]byte{op.delim}), aux})
								}
							}
						}
					}
					w.Each(len(items), func(i int) { w.Item(items[i].body, items[i].aux) })
				}, Eval: evalC18Quoted},
			{Name: "backslash-runs", Space: "25 openers x filler a^p (p in {0, 1, 2, 29..34, 61..66, 126..130, 254..258, 1022..1026, 4094..4098}) x backslash^k for every k in 0..80 and around 128, 256, 512, 1024, 4096, 65536 and every new integer constant of the tree under test x {d, d a d, d d, a d} x 2 tails: the parity of a run of any length decides, however far back it starts", Share: 2,
				Run: func(w *fw.W) {
					var ps, ks []int
					ps = append(ps, 0, 1, 2)
					for _, c := range []int{32, 64, 128, 256, 1024, 4096} {
						for d := -3; d <= 2; d++ {
							ps = append(ps, c+d)
						}
					}
					for k := 0; k <= 80; k++ {
						ks = append(ks, k)
					}
					cs := []int{128, 256, 512, 1024, 4096, 65536}
					for _, n := range alpha.NewInts() {
						if n > 80 && n <= 1<<17 {
							cs = append(cs, n)
						}
					}
					for _, c := range cs {
						for d := -2; d <= 2; d++ {
							ks = append(ks, c+d)
						}
					}
					type job struct {
						op strOpener
						p  int
						tl string
					}
					var jobs []job
					for _, op := range ops {
						for _, p := range ps {
							for _, tl := range c18Tails {
								jobs = append(jobs, job{op, p, tl})
							}
						}
					}
					w.Each(len(jobs), func(i int) {
						j := jobs[i]
						d := string([]byte{j.op.delim})
						aux := j.op.name + "|" + j.tl
						pre := strings.Repeat("a", j.p)
						for _, k := range ks {
							run := pre + strings.Repeat("\\", k)
							for _, after := range []string{d, d + "a" + d, d + d, "a" + d} {
								w.Item(run+after, aux)
							}
						}
					})
				}, Eval: evalC18Quoted},
			{Name: "q-strings", Space: "223 delimiter bytes x {b, close(b), ', a}^<=5 x {q' Q' nq' Nq' NQ' nQ'}", Share: 2,
				Run: func(w *fw.W) {
					pre := []string{"q'", "Q'", "nq'", "Nq'", "NQ'", "nQ'"}
					w.Each(223*len(pre), func(i int) {
						b := byte(33 + i/len(pre))
						p := pre[i%len(pre)]
						bs := string([]byte{b})
						al := []string{bs, string([]byte{qClose(b)}), "'", "a"}
						if qClose(b) == b {
							al = []string{bs, "'", "a", "\\"}
						}
						enumBodies(w, al, w.Pick(5, 6), func(body string) {
							w.Item(p+bs+body, string([]byte{byte('0' + len(p))}))
						})
					})
				}, Eval: evalC18Q},
			{Name: "dollar-strings", Space: "tags {'', a, A, ab} x {$, a, A, b}^<=7 (quick) / <=8 (thorough)", Share: 1,
				Run: func(w *fw.W) {
					tags := []string{"", "a", "A", "ab"}
					w.Each(len(tags), func(i int) {
						enumBodies(w, []string{"$", "a", "A", "b", "\xff"}, w.Pick(6, 7), func(body string) { w.Item(body, tags[i]) })
					})
					// tags of boundary lengths with short bodies that contain the tag in both cases
					var long []string
					for _, k := range []int{2, 15, 16, 17, 30, 31, 32, 33, 62, 63, 64, 65, 100, 127, 128, 129, 255, 256, 257} {
						long = append(long, strings.Repeat("a", k))
					}
					w.Each(len(long), func(i int) {
						t := long[i]
						for _, body := range []string{"", "x", "x$" + t + "$y", "x$" + strings.ToUpper(t) + "$y$" + t + "$z", "$" + t, t + "$", "\xff$" + strings.ToUpper(t) + "$"} {
							w.Item(body, t)
						}
					})
				}, Eval: evalC18Dollar},
		},
	})
}
