package props

import (
	"sort"
	"strings"
	"sync"

	lib "github.com/corazawaf/libinjection-go"

	"verif/alpha"
	"verif/fw"
)

// product enumerates the complete product of the parts (one string per choice of one element of each).
func product(w *fw.W, parts ...[]string) {
	n := 1
	for _, p := range parts {
		if len(p) == 0 {
			return
		}
		n *= len(p)
	}
	var sb strings.Builder
	w.Each(n, func(i int) {
		sb.Reset()
		segs := make([]string, len(parts))
		for k := len(parts) - 1; k >= 0; k-- {
			segs[k] = parts[k][i%len(parts[k])]
			i /= len(parts[k])
		}
		for _, s := range segs {
			sb.WriteString(s)
		}
		w.Item(sb.String(), "")
	})
}

func uniq(lists ...[]string) []string {
	seen := map[string]bool{}
	var out []string
	for _, l := range lists {
		for _, s := range l {
			if !seen[s] {
				seen[s] = true
				out = append(out, s)
			}
		}
	}
	return out
}

// newByteAtoms: new small integer constants read as byte values.
func newByteAtoms() []string {
	var out []string
	for _, v := range alpha.NewInts() {
		if v < 0x80 {
			out = append(out, string([]byte{byte(v)}))
		}
	}
	return out
}

const deltaSpace = "symbols = the string / character / byte literals of the tree under test that the pinned tree does not contain (baseline/literals.json; none on the pinned tree, where this space is empty): " +
	"opener x new symbol (as written / lower / upper) x (core bytes + new symbols)^<=1, opener x new symbol x (core bytes + new symbols)^2..3, and opener x symbol x new symbol x symbol^<=1 over bytes + fragments + new symbols"

// deltaRun explores the delta alphabet around the fixed one: atoms = the new literals as written, forms = atoms
// plus their lower / upper-case forms (short products only).
func deltaRun(w *fw.W, atoms, forms, openers, core, wide []string) {
	if len(forms) == 0 {
		w.Finish()
		return
	}
	if len(atoms) > 16 {
		w.Note("more than 16 new literal symbols: only the first 16 are explored at full depth")
		atoms = atoms[:16]
	}
	ca := uniq(core, atoms)
	cf := uniq(core, forms)
	wf := uniq(wide, forms)
	product(w, openers, forms)
	product(w, openers, forms, cf)
	product(w, openers, atoms, ca, ca)
	product(w, openers, atoms, ca, ca, ca)
	product(w, openers, wide, forms)
	product(w, openers, wide, forms, wf)
}

var sqlOpenersDelta = uniq([]string{""}, alpha.S2, alpha.SQLPrefixes[:14])
var htmlOpenersDelta = uniq([]string{"", "<a href=", "<a href=\"", "<a href='", "<a x=", "<a ", "<a x=\""}, alpha.H2, alpha.HTMLPrefixes)

func deltaSQLPhase(eval func(w *fw.W, s, aux string)) fw.Phase {
	return fw.Phase{Name: "new-literals", Space: deltaSpace + "; each new symbol between two literal-producing fragments behind 0..20 list items / empty strings / blanks", Share: 2,
		Run: func(w *fw.W) {
			deltaRun(w, uniq(alpha.DeltaSQLRaw(), newByteAtoms()), uniq(alpha.DeltaSQL(), newByteAtoms()), sqlOpenersDelta, alpha.S1core, uniq(alpha.S1, alpha.S2))
			list(w, deltaSlotsSQL())
		}, Eval: eval}
}

// deltaSlotsSQL: a new word between two literal-producing fragments, at growing offsets (a clause that extends a literal).
func deltaSlotsSQL() []string {
	var out []string
	lits := []string{"'a'", "u&'a'", "U&'a'", "n'a'", "x'41'", "q'(a)'", "$a$b$a$", "`a`", "@a", "1", "a"}
	for _, a := range alpha.DeltaSQL() {
		for _, l := range lits {
			for _, l2 := range []string{"'!'", "1", "a"} {
				for _, pre := range []string{"1,", "'' ", " "} {
					for _, k := range []int{0, 1, 5, 9, 20} {
						out = append(out, strings.Repeat(pre, k)+l+" "+a+" "+l2, strings.Repeat(pre, k)+l+a+l2)
					}
				}
			}
		}
	}
	return out
}

func deltaHTMLPhase(eval func(w *fw.W, s, aux string)) fw.Phase {
	return fw.Phase{Name: "new-literals", Space: deltaSpace + "; each new symbol (and each ordered pair) as element name / attribute name / value of 14 vector templates, with growing-rune content", Share: 2,
		Run: func(w *fw.W) {
			deltaRun(w, uniq(alpha.DeltaHTMLRaw(), newByteAtoms()), uniq(alpha.DeltaHTML(), newByteAtoms()), htmlOpenersDelta, alpha.H1core, uniq(alpha.H1, alpha.H2))
			list(w, deltaSlotsHTML())
		}, Eval: eval}
}

// deltaSlotsHTML: the new literals (lower-case forms) in the slots of canonical vectors: element name, attribute
// name, value; ordered pairs as (element, attribute); element content made of runes that grow when case-folded.
func deltaSlotsHTML() []string {
	var atoms []string
	seen := map[string]bool{}
	for _, a := range alpha.DeltaHTMLRaw() {
		l := asciiLower(a)
		if !seen[l] && !strings.ContainsAny(l, "<>= \t\n'\"`/") && l != "" {
			seen[l] = true
			atoms = append(atoms, l)
		}
	}
	if len(atoms) > 24 {
		atoms = atoms[:24]
	}
	var out []string
	for _, a := range atoms {
		out = append(out, "<"+a+">", "<"+a+" x=y>", "<"+a+" href=javascript:x>", "<a "+a+"=javascript:x>", "<a "+a+"=x>", "<a "+a+"=onclick>", "</"+a+">", "<"+a+"/>",
			"<"+a+">"+strings.Repeat("\xff", 12)+"</"+a+">", "<"+a+">"+strings.Repeat("\u023a", 12)+"</"+a+">", "<"+a+" x=y>aaaa</"+a+"><script>", "<"+a+"><script>alert(1)</script></"+a+">",
			"x'><"+a+" onerror=x>", "<a href="+a+":x>")
		for _, b := range atoms {
			out = append(out, "<"+a+" "+b+"=javascript:x>", "<"+a+" name=movie "+b+"=javascript:alert(1)>", "<"+a+" "+b+"=x onerror=y>")
		}
	}
	return out
}

// ---- keyword sweep ------------------------------------------------------------------------------------

var (
	kwOnce  sync.Once
	kwItems []string
)

// keywordSweep: every non-fingerprint key of the CURRENT keyword table (upper, lower, and with the first
// S / I replaced by the runes U+017F / U+0131 that upper-case to them) in each statement position a
// lexer or folder rule looks at: alone, called, after ';', after UNION SELECT, followed by '.', by a
// back-tick, between numbers and strings, doubled.
func keywordSweep() []string {
	kwOnce.Do(func() {
		tab := lib.VerifSQLKeywords()
		var keys []string
		for k, v := range tab {
			if v != 'F' {
				keys = append(keys, k)
			}
		}
		sort.Strings(keys)
		tmpl := []string{"K", "K(1)", "1 K 1", "1; K(1,2)", "; K ", "1 union select K", "1 union select K.x", "1 or 1=K`x`", "K.x", "K`",
			"'1' K '1'", "1 K(", "@K", "K K", "1 union select K()", "1 or K.x=1", "K 1", "1) K (1", "1 union select 1 K outfile 'x'"}
		for _, k := range keys {
			forms := []string{k, asciiLower(k)}
			lk := asciiLower(k)
			if i := strings.IndexByte(lk, 's'); i >= 0 {
				forms = append(forms, lk[:i]+"ſ"+lk[i+1:])
			}
			if i := strings.IndexByte(lk, 'i'); i >= 0 {
				forms = append(forms, lk[:i]+"ı"+lk[i+1:])
			}
			if i := strings.IndexByte(lk, 'k'); i >= 0 {
				forms = append(forms, lk[:i]+"K"+lk[i+1:])
			}
			for _, f := range forms {
				for _, t := range tmpl {
					kwItems = append(kwItems, strings.ReplaceAll(t, "K", f))
				}
			}
		}
	})
	return kwItems
}

// ---- separator sweep ----------------------------------------------------------------------------------

var (
	sepOnce  sync.Once
	sepItems []string
)

// separatorSweep: every sequence of up to three core tokens (and the canonical attacks) with ALL blanks
// replaced by one other separator: each white-space byte of the dispatch table, NUL, an inline comment.
func separatorSweep() []string {
	sepOnce.Do(func() {
		var bases []string
		for _, a := range alpha.S3core {
			bases = append(bases, a)
			for _, b := range alpha.S3core {
				bases = append(bases, a+b)
				for _, c := range alpha.S3core {
					bases = append(bases, a+b+c)
				}
			}
		}
		bases = append(bases, "1 union select 1", "1 or 1=1", "1 is null", "1 or not 1", "1 and 1 like 1", "x' or 'a'='a", "1; drop table t", "1 union all select 1 from t")
		for _, b := range bases {
			for _, sep := range []string{"\t", "\n", "\v", "\f", "\r", "\xa0", "\x00", "/**/"} {
				sepItems = append(sepItems, strings.ReplaceAll(b, " ", sep), strings.ReplaceAll(strings.TrimRight(b, " "), " ", sep))
			}
		}
	})
	return sepItems
}

// ---- glued tokens -------------------------------------------------------------------------------------

var (
	gluedOnce  sync.Once
	gluedItems []string
)

// gluedTokens: a literal / number / closing token immediately followed (no blank) by a keyword or word, in
// attack position: where one lexer stops is where the next token starts.
func gluedTokens() []string {
	gluedOnce.Do(func() {
		lefts := []string{"0x41", "0b01", "x'41'", "b'01'", "1e5", "1.5", "1f", "2.0d", "1", "'a'", "@a", "`a`", ")", "1.", "0x", "1e", "n'a'", "$a$b$a$", "q'(a)'", "\\N", "]", "a"}
		rights := []string{"union", "or", "and", "like", "user()", "select", "in", "not", "is", "xor", "div", "mod", "p", "y", "u", "e1", "x41"}
		for _, l := range lefts {
			for _, r := range rights {
				gluedItems = append(gluedItems, "1 or "+l+r+" select 1", "1 "+r+" "+l+r+" 1", l+r, "1' or "+l+r+" --", "1 union select "+l+r)
			}
		}
	})
	return gluedItems
}

// ---- comment openers at every token boundary -----------------------------------------------------------

var (
	cmtOnce  sync.Once
	cmtItems []string
)

// commentInsertions: multi-token statements with each blank replaced by each comment opener / one-line comment
// (what the ANSI and the MySQL reading make of a comment in the middle of the five-token window, and whether the
// re-parse gate follows).
func commentInsertions() []string {
	cmtOnce.Do(func() {
		bases := []string{"id select password from users)", "1 union select 1 from t", "name' or id+ and (select 1)", "1 or 1=1 and 2=2 or 3", "foo bar baz qux quux corge", "x' and id (select 1) or 'a", "1 , 2 , 3 union select 4",
			"a\" or id+ and (select 1)", "1 ) or ( 1 = 1 ) -- x", "id = 1 having 1 = 1 or 2"}
		ins := []string{"--(\n", "--x\n", "--(", "--", "#x\n", "#", "/*x*/", "--\n", "-- \n", "--x"}
		for _, b := range bases {
			parts := strings.Split(b, " ")
			for i := 1; i < len(parts); i++ {
				for _, c := range ins {
					cmtItems = append(cmtItems, strings.Join(parts[:i], " ")+c+strings.Join(parts[i:], " "), strings.Join(parts[:i], " ")+" "+c+strings.Join(parts[i:], " "))
				}
			}
		}
	})
	return cmtItems
}
