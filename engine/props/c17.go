package props

import (
	"fmt"
	"strings"

	lib "github.com/corazawaf/libinjection-go"

	"verif/alpha"
	"verif/fw"
	"verif/refhtml"
)

// C17 — HTML tokens stay inside the input, in order; constructs end at their first terminator.

func evalC17Order(w *fw.W, s, _ string) {
	n := len(s)
	for _, c := range htmlCtx {
		toks, capped := lib.VerifH5Tokens(s, c)
		if capped || len(toks) > n+1 {
			w.Fail("count", fmt.Sprintf("ctx %s: more than |s|+1=%d tokens (or tokenizer did not stop)", htmlCtxName[c], n+1))
			return
		}
		end := 0
		for i, t := range toks {
			if t.Off < 0 || t.Len < 0 || t.Off+t.Len > n {
				w.Fail("bounds", fmt.Sprintf("ctx %s: token %d %s@%d+%d outside input of %d bytes", htmlCtxName[c], i, h5TypeName(t.Type), t.Off, t.Len, n))
				return
			}
			if t.Off < end {
				w.Fail("order", fmt.Sprintf("ctx %s: token %d %s@%d+%d starts before the end %d of the previous token | %s", htmlCtxName[c], i, h5TypeName(t.Type), t.Off, t.Len, end, fmtImplToks(toks)))
				return
			}
			end = t.Off + t.Len
		}
		w.Traces(1)
		if len(toks) > 1 {
			w.NonTrivial()
		}
		w.Outcome(uint64(len(toks))<<8 | uint64(c))
	}
}

// construct describes one delimited construct for the first-terminator oracle.
type construct struct {
	name   string
	opener string // text before the construct body
	pre    string // fixed part of the body that belongs to the token (doctype keyword)
	k      int    // index of the construct's token in the data-context stream
	typ    int
	alpha  []string
	// end finds the first terminator in text: (body length, resume offset) or (-1,0)
	end func(text string) (int, int)
}

func endStr(term string) func(string) (int, int) {
	return func(t string) (int, int) {
		i := strings.Index(t, term)
		if i < 0 {
			return -1, 0
		}
		return i, i + len(term)
	}
}

var constructs = []construct{
	{"percent-comment", "<%", "", 0, refhtml.TagComment, []string{"%", ">", "a", " ", "<"}, endStr("%>")},
	{"cdata", "<![CDATA[", "", 0, refhtml.DataText, []string{"]", ">", "a", "<"}, endStr("]]>")},
	{"comment", "<!--", "", 0, refhtml.TagComment, []string{"-", "!", ">", "\x00", "a"}, func(t string) (int, int) { return refhtml.CommentEnd(t, 0) }},
	{"bogus-bang", "<!", "", 0, refhtml.TagComment, []string{">", "a", " ", "<", "/"}, endStr(">")},
	{"bogus-question", "<?", "", 0, refhtml.TagComment, []string{">", "a", " ", "<", "?"}, endStr(">")},
	{"doctype", "<!", "doctype ", 0, refhtml.DocType, []string{">", "a", " ", "<", "\""}, endStr(">")},
	{"doctype-public", "<!", "doctype html ", 0, refhtml.DocType, []string{">", "PUBLIC ", "SYSTEM ", "\"", "'", "a"}, endStr(">")},
	{"squote-value", "<a b='", "", 2, refhtml.AttrValue, []string{"'", "\"", ">", "a", "\\"}, endStr("'")},
	{"dquote-value", "<a b=\"", "", 2, refhtml.AttrValue, []string{"\"", "'", ">", "a", "\\"}, endStr("\"")},
	{"bquote-value", "<a b=`", "", 2, refhtml.AttrValue, []string{"`", "'", ">", "a", "\\"}, endStr("`")},
	// case variants of the CDATA marker are NOT CDATA: they are `<! .. >` constructs ending at the first '>'
	{"lowercase-cdata-is-bogus", "<!", "[cdata[", 0, refhtml.TagComment, []string{">", "a", "]", "<", " "}, endStr(">")},
	{"mixedcase-cdata-is-bogus", "<!", "[CDATa[", 0, refhtml.TagComment, []string{">", "a", "]", "<", " "}, endStr(">")},
}

// c17Wide: the union of every construct's terminator / decoy bytes. A scanner that starts honouring
// another construct's conventions (NUL tolerance, backslash escapes, a different closer) shows up
// when its bodies are drawn from this alphabet.
var c17Wide = []string{"%", ">", "]", "-", "!", "\x00", "'", "\"", "`", "\\", "a", " ", "<", "\xef\xbb\xbf"}

var c17Tails = []string{"", "<x>", "<script>"}

func shiftToks(ts []lib.VerifH5Tok, d int) string {
	var b strings.Builder
	for _, t := range ts {
		fmt.Fprintf(&b, "%s@%d+%d ", h5TypeName(t.Type), t.Off+d, t.Len)
	}
	return b.String()
}

func evalC17Term(w *fw.W, body, aux string) {
	var cs *construct
	tail := ""
	aux = strings.TrimPrefix(aux, "wide:")
	for i := range constructs {
		for _, tl := range c17Tails {
			if aux == constructs[i].name+"|"+tl {
				cs, tail = &constructs[i], tl
			}
		}
	}
	if cs == nil {
		panic("unknown construct " + aux)
	}
	text := cs.pre + body + tail
	full := cs.opener + text
	toks, _ := lib.VerifH5Tokens(full, 0)
	if len(toks) <= cs.k {
		w.Fail("missing", fmt.Sprintf("construct token %d missing | %s", cs.k, fmtImplToks(toks)))
		return
	}
	idx, resume := cs.end(text[len(cs.pre):])
	if idx >= 0 {
		idx += len(cs.pre)
		resume += len(cs.pre)
	}
	wantLen := idx
	if idx < 0 {
		wantLen = len(text)
	}
	t := toks[cs.k]
	if t.Type != cs.typ || t.Off != len(cs.opener) || t.Len != wantLen {
		w.Fail("first-terminator", fmt.Sprintf("%s: token is %s@%d+%d, the first terminator gives %s@%d+%d | %s", cs.name,
			h5TypeName(t.Type), t.Off, t.Len, h5TypeName(cs.typ), len(cs.opener), wantLen, fmtImplToks(toks)))
		return
	}
	w.Traces(1)
	if idx < 0 {
		if len(toks) != cs.k+1 {
			w.Fail("resume", fmt.Sprintf("%s: unterminated construct must be the last token | %s", cs.name, fmtImplToks(toks)))
		}
		w.Outcome(0)
		return
	}
	w.NonTrivial()
	rest := text[resume:]
	after := ""
	if len(toks) > cs.k+1 {
		after = shiftToks(toks[cs.k+1:], 0)
	}
	if cs.k == 0 {
		// comment-like constructs return to the data state: what follows the terminator must be exactly
		// the data-context tokenization of the remaining text, shifted to where it starts
		restToks, _ := lib.VerifH5Tokens(rest, 0)
		want := shiftToks(restToks, len(cs.opener)+resume)
		if after != want {
			w.Fail("resume", fmt.Sprintf("%s: tokens after the terminator %q differ from the data-state tokens of the remaining text %q: %q", cs.name, after, rest, want))
			return
		}
	} else {
		// quoted values continue inside the tag: what follows must tokenize exactly as after an EMPTY value
		// (opener + terminator + rest), shifted by the body length: same state reached from elsewhere
		term := text[idx:resume]
		short := cs.opener + cs.pre + term + rest
		toks2, _ := lib.VerifH5Tokens(short, 0)
		d := idx - len(cs.pre)
		b := ""
		if len(toks2) > cs.k+1 {
			b = shiftToks(toks2[cs.k+1:], d)
		}
		if after != b {
			w.Fail("resume", fmt.Sprintf("%s: tokens after the terminator differ from those after an empty construct: %q vs %q (shifted by %d)", cs.name, after, b, d))
			return
		}
	}
	w.Outcome(uint64(idx+1)<<8 | uint64(len(toks)))
}

// evalC17Virtual: in the three quoted start contexts the input IS the attribute value: the first token
// starts at offset 0 and ends at the first occurrence of the context's quote.
func evalC17Virtual(w *fw.W, body, aux string) {
	c := int(aux[0] - '0')
	q := []byte{0, 0, '\'', '"', '`'}[c]
	toks, _ := lib.VerifH5Tokens(body, c)
	if body == "" {
		return
	}
	i := strings.IndexByte(body, q)
	wantLen := i
	if i < 0 {
		wantLen = len(body)
	}
	w.Traces(1)
	if len(toks) == 0 || toks[0].Type != refhtml.AttrValue || toks[0].Off != 0 || toks[0].Len != wantLen {
		w.Fail("first-terminator", fmt.Sprintf("start context %s: first token %s, the value must be ATTR_VALUE@0+%d (first %q)", htmlCtxName[c], fmtImplToks(toks), wantLen, q))
		return
	}
	if i >= 0 {
		w.NonTrivial()
		// what follows the closing quote must tokenize as after an empty value in the same context
		rest := body[i:]
		t2, _ := lib.VerifH5Tokens(rest, c)
		a, b := "", ""
		if len(toks) > 1 {
			a = shiftToks(toks[1:], 0)
		}
		if len(t2) > 1 {
			b = shiftToks(t2[1:], i)
		}
		if a != b {
			w.Fail("resume", fmt.Sprintf("start context %s: tokens after the closing quote %q differ from those after an empty value %q", htmlCtxName[c], a, b))
		}
	}
}

func init() {
	var cuts []string
	fw.Register(&fw.Check{
		ID:        "C17",
		QuickS:    60,
		ThoroughS: 600,
		Rule: "(a) every string over the HTML alphabets up to the completed level, in 5 contexts: token bounds/order/count invariants on the real token stream; " +
			"(b) for each of 12 delimited constructs (incl. case variants of the CDATA marker, which are NOT CDATA), EVERY body over the construct's terminator+decoy alphabet up to length 8 (quick) / 9 (thorough) x 3 tails: " +
			"the construct token must start after the opener, end at the first terminator found by an independent search, and tokenizing must resume as after an empty construct; " +
			"non-trivial = more than one token (a) / body contains a terminator (b)",
		Assumptions: []string{"first-terminator oracles are plain forward searches (strings.Index / explicit pattern for comments) independent of the tokenizer"},
		Setup: func(w *fw.W) error {
			cuts = alpha.Cuts(fixtures(), "'\"`", 4096)
			return nil
		},
		Phases: []fw.Phase{
			{Name: "order-trie-H1", Space: "H1^<=4 (quick) / <=5 (thorough) x 5 contexts", Share: 3,
				Run: func(w *fw.W) { w.Trie(alpha.H1, 0, w.Pick(4, 5)) }, Eval: evalC17Order},
			{Name: "order-trie-H1core-deep", Space: "H1core^5..6 (quick) / ^5..7 (thorough) x 5 contexts", Share: 3,
				Run: func(w *fw.W) { w.Trie(alpha.H1core, 5, w.Pick(6, 7)) }, Eval: evalC17Order},
			{Name: "order-trie-H2", Space: "H2^<=4 (quick) / <=5 (thorough) x 5 contexts", Share: 3,
				Run: func(w *fw.W) { w.Trie(alpha.H2, 1, w.Pick(4, 5)) }, Eval: evalC17Order},
			{Name: "order-corpus-cuts", Space: "all fixture cuts x 5 contexts", Share: 1,
				Run: func(w *fw.W) { w.Each(len(cuts), func(i int) { w.Item(cuts[i], "") }) }, Eval: evalC17Order},
			{Name: "first-terminator", Space: "10 constructs x every body over its 5-symbol terminator/decoy alphabet, length <=8 (quick) / <=9 (thorough) x 3 tails", Share: 4,
				Run: func(w *fw.W) {
					maxL := w.Pick(8, 9)
					w.Each(len(constructs)*len(c17Tails), func(i int) {
						cs := constructs[i/len(c17Tails)]
						tl := c17Tails[i%len(c17Tails)]
						aux := cs.name + "|" + tl
						w.Item("", aux)
						var rec func(b string, d int)
						rec = func(b string, d int) {
							if d == maxL || w.Expired() {
								return
							}
							for _, a := range cs.alpha {
								nb := b + a
								w.Item(nb, aux)
								rec(nb, d+1)
							}
						}
						rec("", 0)
					})
				}, Eval: evalC17Term},
			{Name: "first-terminator-start-contexts", Space: "the three quoted start contexts x every body over the 14-symbol union alphabet (incl. the BOM), length <=4 (quick) / <=5 (thorough)", Share: 2,
				Run: func(w *fw.W) {
					maxL := w.Pick(4, 5)
					w.Each(3, func(ci int) {
						aux := string([]byte{byte('2' + ci)})
						var rec func(b string, d int)
						rec = func(b string, d int) {
							if d == maxL || w.Expired() {
								return
							}
							for _, a := range c17Wide {
								w.Item(b+a, aux)
								rec(b+a, d+1)
							}
						}
						rec("", 0)
					})
				}, Eval: evalC17Virtual},
			{Name: "first-terminator-wide", Space: "12 constructs x every body over the 14-symbol union alphabet of all terminator/escape/decoy bytes plus the literals the tree under test has in addition to the pinned tree, length <=4 (quick) / <=5 (thorough) x 3 tails", Share: 3,
				Run: func(w *fw.W) {
					maxL := w.Pick(4, 5)
					// literals the tree under test has in addition to the pinned tree may be new terminators / markers
					wide := uniq(c17Wide, alpha.DeltaHTML(), newByteAtoms())
					w.Each(len(constructs)*len(c17Tails), func(i int) {
						cs := constructs[i/len(c17Tails)]
						aux := "wide:" + cs.name + "|" + c17Tails[i%len(c17Tails)]
						var rec func(b string, d int)
						rec = func(b string, d int) {
							if d == maxL || w.Expired() {
								return
							}
							for _, a := range wide {
								nb := b + a
								// bodies that change which construct the opener starts are not bodies of this construct
								if cs.opener == "<!" && cs.pre == "" && (strings.HasPrefix(nb, "-") || strings.HasPrefix(nb, "[") || strings.HasPrefix(nb, "d")) {
									continue
								}
								w.Item(nb, aux)
								rec(nb, d+1)
							}
						}
						rec("", 0)
					})
				}, Eval: evalC17Term},
		},
	})
}

func init() {
	c := fw.Lookup("C17")
	c.Phases = append(c.Phases, htmlExtraPhases(evalC17Order, false)...)
}
