package props

import (
	"fmt"
	"strings"

	lib "github.com/corazawaf/libinjection-go"

	"verif/alpha"
	"verif/fw"
	"verif/refhtml"
)

// C19 — script-capable URL schemes through any encoding; the decoder.

var decAlpha = []string{"&", "#", "x", "X", ";", "0", "1", "9", "a", "F", "g", " ", "\x80", "\xff"}

func evalC19Decode(w *fw.W, s, _ string) {
	v, c := lib.VerifDecode(s)
	rv, rc := refhtml.Decode(s)
	if v != rv || c != rc {
		w.Fail("decode", fmt.Sprintf("impl=(0x%x,%d) spec=(0x%x,%d)", v, c, rv, rc))
		return
	}
	if len(s) == 0 {
		if c != 0 {
			w.Fail("consumed", "empty input must consume 0")
		}
	} else if c < 1 || c > len(s) {
		w.Fail("consumed", fmt.Sprintf("consumed %d outside [1,%d]", c, len(s)))
		return
	}
	w.Traces(1)
	if c > 1 {
		w.NonTrivial()
	}
	w.Outcome(uint64(v)<<8 | uint64(c))
}

var urlSchemes = []string{"data:", "java", "javascript:", "vbscript:", "view-source:", "data", "vbscript", "view-source"}
var urlJunk = []string{"", " ", "\x01", "\x7f", "\xc2\xa0", "&#9;", " \t\n", "&#x20;&#1;",
	strings.Repeat(" ", 300), strings.Repeat("\x7f\x01", 150), strings.Repeat("&#9;", 80)}

func isHexDigit(c byte) bool {
	return (c >= '0' && c <= '9') || (c >= 'a' && c <= 'f') || (c >= 'A' && c <= 'F')
}

// encodings of one byte; form 0 = literal lower, 1 = literal upper, 2.. = references.
// termOK reports whether the piece ends its own reference (with ';').
func encodeByte(c byte, form int) (piece string, openDec, openHex bool) {
	up := c
	if c >= 'a' && c <= 'z' {
		up = c - 0x20
	}
	switch form {
	case 0:
		return string([]byte{c}), false, false
	case 1:
		return string([]byte{up}), false, false
	case 2:
		return fmt.Sprintf("&#%d;", c), false, false
	case 3:
		return fmt.Sprintf("&#%d", c), true, false
	case 4:
		return fmt.Sprintf("&#0000%d;", up), false, false
	case 7:
		return "&#" + strings.Repeat("0", 70) + fmt.Sprint(int(c)) + ";", false, false
	case 5:
		return fmt.Sprintf("&#x%x;", c), false, false
	case 6:
		return fmt.Sprintf("&#X%X", up), false, true
	}
	panic("form")
}

const nForms = 8

// buildEncoded assembles the value from per-byte forms; ok=false when an unterminated reference
// would swallow the following literal byte (then the text no longer encodes the scheme).
func buildEncoded(scheme string, forms []int) (string, []int, bool) {
	return buildEncodedSep(scheme, forms, "")
}

// buildEncodedSep: as buildEncoded, but where an unterminated reference would swallow the following piece the
// ignorable byte sep (raw NUL or LF) is put between them: it ends the digit run and the matcher skips it.
func buildEncodedSep(scheme string, forms []int, sep string) (string, []int, bool) {
	var b strings.Builder
	var cuts []int // offsets between pieces (for NUL/LF insertion)
	prevDec, prevHex := false, false
	for i := 0; i < len(scheme); i++ {
		p, od, oh := encodeByte(scheme[i], forms[i])
		if (prevDec && p[0] >= '0' && p[0] <= '9') || (prevHex && isHexDigit(p[0])) || ((prevDec || prevHex) && p[0] == ';') {
			if sep == "" {
				return "", nil, false
			}
			b.WriteString(sep)
		}
		cuts = append(cuts, b.Len())
		b.WriteString(p)
		prevDec, prevHex = od, oh
	}
	cuts = append(cuts, b.Len())
	return b.String(), cuts, true
}

var c19URLAttrs []string

func evalC19Match(w *fw.W, val, aux string) {
	if !lib.VerifBlackURL(val) {
		w.Fail("scheme-missed", fmt.Sprintf("URL predicate false for an encoding of %s", aux))
		return
	}
	w.Traces(1)
	w.NonTrivial()
	w.Outcome(fw.Hash(aux) & 0xff)
}

// longDigitRefs: references whose digit run crosses the widths of 32- and 64-bit accumulators.
func longDigitRefs() []string {
	var items []string
	for _, p := range []string{"&#x", "&#X", "&#"} {
		hi := "F"
		if p == "&#" {
			hi = "9"
		}
		for _, f := range []string{"", "1", "7", "8", "9", "F"} {
			for _, m := range []string{"0", hi} {
				for k := 0; k <= 40; k++ {
					for _, l := range []string{"", "6A", "41", "106", "00", "FF"} {
						for _, sfx := range []string{"", ";", "g"} {
							items = append(items, p+f+strings.Repeat(m, k)+l+sfx)
						}
					}
				}
			}
		}
	}
	return items
}

func evalC19XSS(w *fw.W, val, aux string) {
	for _, a := range c19URLAttrs {
		for qi, q := range []string{"", "'", "\""} {
			if qi == 0 && strings.ContainsAny(val, " \t\n\r\f\v>") {
				continue // not expressible unquoted
			}
			in := "<a " + a + "=" + q + val + q + ">"
			if !lib.IsXSS(in) {
				w.Fail("xss-missed", fmt.Sprintf("IsXSS(%q)=false (%s)", in, aux))
				return
			}
			w.Traces(1)
		}
	}
	w.NonTrivial()
}

// enumerate encodings of scheme with at most maxDev non-default positions (default = literal lower);
// all combinations when maxDev >= len(scheme).
func enumEncodings(scheme string, maxDev int, f func(forms []int)) {
	forms := make([]int, len(scheme))
	var rec func(i, dev int)
	rec = func(i, dev int) {
		if i == len(scheme) {
			f(forms)
			return
		}
		forms[i] = 0
		rec(i+1, dev)
		if dev < maxDev {
			for fm := 1; fm < nForms; fm++ {
				forms[i] = fm
				rec(i+1, dev+1)
			}
			forms[i] = 0
		}
	}
	rec(0, 0)
	// the uniform encodings
	for fm := 1; fm < nForms; fm++ {
		for i := range forms {
			forms[i] = fm
		}
		f(forms)
	}
}

func init() {
	fw.Register(&fw.Check{
		ID:        "C19",
		QuickS:    60,
		ThoroughS: 600,
		Rule: "decoder: every string over {& # x X ; 0 1 9 a F g space 0x80 0xff}^<=6 (quick) / <=7 (thorough) and the overflow family &#x|&# + {0,1,9,F}^<=9 + {'',';','g'}: (value, consumed) must equal the written specification and 1<=consumed<=|s|. " +
			"matcher: every scheme x every per-byte encoding combination (8 forms incl. a reference with 70 leading zeros; all combinations for schemes <=5 bytes, <=3 (quick) / <=4 (thorough) non-default positions + uniform encodings for longer ones) x 11 leading-junk prefixes (incl. 300-byte runs) x one NUL or LF (raw or as reference) inserted at every piece boundary: the URL predicate must be true; " +
			"and through IsXSS(`<a ATTR=VALUE>`) for every URL attribute x 3 quotings for the <=2 (quick) / <=3 (thorough) deviation subset; non-trivial = a reference was decoded / a scheme encoding was judged",
		Assumptions: []string{"encodings whose unterminated reference would swallow the following literal digit are excluded (they encode a different text)"},
		Setup: func(w *fw.W) error {
			htmlLists()
			c19URLAttrs = nil
			for _, a := range hAttrs {
				if a.Type == refhtml.AttrURL {
					c19URLAttrs = append(c19URLAttrs, strings.ToLower(a.Name))
				}
			}
			return nil
		},
		Phases: []fw.Phase{
			{Name: "decoder-trie", Space: "decAlpha (14 symbols incl. 0x80, 0xff)^<=6 (quick) / <=7 (thorough)", Share: 3,
				Run: func(w *fw.W) { w.Trie(decAlpha, 0, w.Pick(6, 7)) }, Eval: evalC19Decode},
			{Name: "decoder-overflow", Space: "(&#x | &#X | &#) + {0,1,9,F}^<=9 (quick <=8) + {'', ';', 'g'}", Share: 1,
				Run: func(w *fw.W) {
					var pre = []string{"&#x", "&#X", "&#"}
					var suf = []string{"", ";", "g"}
					maxL := w.Pick(8, 9)
					i := 0
					var rec func(d string, depth int)
					rec = func(d string, depth int) {
						if w.Expired() {
							return
						}
						i++
						if w.Mine(i) {
							for _, p := range pre {
								for _, s := range suf {
									w.Item(p+d+s, "")
								}
							}
						}
						if depth == maxL {
							return
						}
						for _, c := range []string{"0", "1", "9", "F"} {
							rec(d+c, depth+1)
						}
					}
					rec("", 0)
					w.Finish()
				}, Eval: evalC19Decode},
			{Name: "decoder-long-digit-runs", Space: "(&#x | &#X | &#) + first digit in {'',1,7,8,9,F} + 0^k or F^k / 9^k for every k in 0..40 + last digits in {'',6A,41,106,00,FF} + {'', ';', 'g'}: accumulator widths of 32 and 64 bits are crossed", Share: 1,
				Run: func(w *fw.W) {
					items := longDigitRefs()
					w.Each(len(items), func(i int) { w.Item(items[i], "") })
				}, Eval: evalC19Decode},
			{Name: "whitespace-around-equals", Space: "every URL attribute x 4 schemes x 3 quotings x every run of <=2 bytes over {space, NUL, LF, TAB} before and after the '=' (441 combinations), public IsXSS", Share: 1,
				Run: func(w *fw.W) {
					ws := []string{""}
					for _, a := range []string{" ", "\x00", "\n", "\t"} {
						ws = append(ws, a)
						for _, b := range []string{" ", "\x00", "\n", "\t"} {
							ws = append(ws, a+b)
						}
					}
					type it struct{ in, aux string }
					var items []it
					for _, sc := range urlSchemes {
						for _, a := range c19URLAttrs {
							for _, q := range []string{"", "'", "\""} {
								for _, b := range ws {
									for _, c := range ws {
										items = append(items, it{"<a " + a + b + "=" + c + q + sc + "x(1)" + q + ">", sc})
									}
								}
							}
						}
					}
					w.Each(len(items), func(i int) { w.Item(items[i].in, items[i].aux) })
				}, Eval: func(w *fw.W, in, aux string) {
					if !lib.IsXSS(in) {
						w.Fail("xss-missed", fmt.Sprintf("IsXSS(%q)=false (%s with blanks / NULs around '=')", in, aux))
						return
					}
					w.Traces(1)
					w.NonTrivial()
				}},
			{Name: "long-leading-junk", Space: "4 schemes x {lower, UPPER} x a run of k strippable units in front of the scheme (space, TAB, 0x01, 0x7F, 0xFF, NUL, LF, &#32; &#x09; &#0;) or of k ignorable units after its second letter (NUL, LF, &#0; &#10;), for every k in 0..100 and -2..+2 around 128 .. 4096 and around every new integer constant: URL predicate, and the public IsXSS in 3 quotings for every URL attribute at the boundary counts", Share: 1,
				Run: func(w *fw.W) {
					var ks []int
					for k := 0; k <= 100; k++ {
						ks = append(ks, k)
					}
					cs := []int{128, 256, 512, 1024, 4096}
					for _, n := range alpha.NewInts() {
						if n > 100 && n <= 1<<16 {
							cs = append(cs, n)
						}
					}
					for _, c := range cs {
						for d := -2; d <= 2; d++ {
							ks = append(ks, c+d)
						}
					}
					lead := []string{" ", "\t", "\x01", "\x7f", "\xff", "\x00", "\n", "&#32;", "&#x09;", "&#0;"}
					inner := []string{"\x00", "\n", "&#0;", "&#10;"}
					type it struct{ v, aux string }
					var items []it
					for _, sc0 := range urlSchemes {
						for _, sc := range []string{sc0, asciiUpper(sc0)} {
							for _, k := range ks {
								for _, u := range lead {
									items = append(items, it{strings.Repeat(u, k) + sc + "//x(1)", fmt.Sprintf("%s after %d x %q", sc, k, u)})
								}
								for _, u := range inner {
									items = append(items, it{sc[:2] + strings.Repeat(u, k) + sc[2:] + "//x(1)", fmt.Sprintf("%s with %d x %q inside", sc, k, u)})
								}
							}
						}
					}
					w.Each(len(items), func(i int) { w.Item(items[i].v, items[i].aux) })
				}, Eval: func(w *fw.W, val, aux string) {
					evalC19Match(w, val, aux)
					evalC19XSS(w, val, aux)
				}},
			{Name: "matcher-encodings", Space: "schemes x per-byte encodings x leading junk x NUL/LF insertion, URL predicate", Share: 4,
				Run: func(w *fw.W) {
					idx := 0
					for _, sc := range urlSchemes {
						maxDev := w.Pick(3, 4)
						if len(sc) <= 5 {
							maxDev = len(sc)
						}
						enumEncodings(sc, maxDev, func(forms []int) {
							idx++
							if !w.Mine(idx) || w.Expired() {
								return
							}
							val, cuts, ok := buildEncoded(sc, forms)
							if !ok {
								// an unterminated reference in front of a digit-like letter: a raw NUL / LF in between ends the reference
								for _, sep := range []string{"\x00", "\n"} {
									v, _, _ := buildEncodedSep(sc, forms, sep)
									w.Item(v+"//x(1)", fmt.Sprintf("%s forms=%v sep=%q", sc, forms, sep))
								}
								return
							}
							aux := fmt.Sprintf("%s forms=%v", sc, forms)
							for _, j := range urlJunk {
								w.Item(j+val+"//x(1)", aux)
								for _, ins := range []string{"\x00", "\n", "&#0;", "&#10;", "&#x0a;"} {
									for _, c := range cuts {
										w.Item(j+val[:c]+ins+val[c:]+"//x(1)", aux+" ins="+fmt.Sprintf("%q@%d", ins, c))
									}
								}
							}
						})
					}
					w.Finish()
				}, Eval: evalC19Match},
			{Name: "matcher-through-IsXSS", Space: "schemes x <=2/<=3-deviation encodings x junk x every URL attribute x 3 quotings, public IsXSS", Share: 2,
				Run: func(w *fw.W) {
					idx := 0
					for _, sc := range urlSchemes {
						enumEncodings(sc, w.Pick(2, 3), func(forms []int) {
							idx++
							if !w.Mine(idx) || w.Expired() {
								return
							}
							val, _, ok := buildEncoded(sc, forms)
							if !ok {
								return
							}
							for _, j := range urlJunk {
								w.Item(j+val+"//x(1)", fmt.Sprintf("%s forms=%v junk=%q", sc, forms, j))
							}
						})
					}
					w.Finish()
				}, Eval: evalC19XSS},
		},
	})
}
