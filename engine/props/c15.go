package props

import (
	"fmt"
	"strings"

	lib "github.com/corazawaf/libinjection-go"

	"verif/alpha"
	"verif/fw"
)

// C15 — text without '<' and without '=' is never reported as XSS.

func without(a []string, bad string) []string {
	var out []string
	for _, s := range a {
		if !strings.ContainsAny(s, bad) {
			out = append(out, s)
		}
	}
	return out
}

var c15Frag = append(without(alpha.H2, "<="), "&#60;", "&#61;", "&#x3c", "&#x3d;", "javascript:", "onerror", "href", "style", "src", "data:", "xmlns", "-->", "]]>", "%>", ">", "/>", "' ", "\" ")

// c15Spellings: every other way the three markup bytes are commonly written — URL, HTML reference, JS / CSS escape,
// UTF-7 shifted unit, overlong UTF-8, full-width and small-form code points, the high-bit twin. A change that makes IsXSS read any of them
// as the byte itself turns a '<'/'='-free input into a report, which C15 forbids.
var c15Spellings = []map[byte]string{
	{'<': "%3C", '=': "%3D", '>': "%3E"}, {'<': "%3c", '=': "%3d", '>': "%3e"},
	{'<': "%253C", '=': "%253D", '>': "%253E"}, {'<': "%u003C", '=': "%u003D", '>': "%u003E"},
	{'<': "&lt;", '=': "&equals;", '>': "&gt;"}, {'<': "&LT", '=': "&Equal;", '>': "&GT"}, {'<': "&lt", '=': "&equals", '>': "&gt"},
	{'<': "&#60;", '=': "&#61;", '>': "&#62;"}, {'<': "&#060", '=': "&#061", '>': "&#062"}, {'<': "&#0000060;", '=': "&#0000061;", '>': "&#0000062;"},
	{'<': "&#x3c;", '=': "&#x3d;", '>': "&#x3e;"}, {'<': "&#X3C", '=': "&#X3D", '>': "&#X3E"}, {'<': "&#x003c;", '=': "&#x003d;", '>': "&#x003e;"},
	{'<': "\\x3c", '=': "\\x3d", '>': "\\x3e"}, {'<': "\\u003c", '=': "\\u003d", '>': "\\u003e"}, {'<': "\\u{3c}", '=': "\\u{3d}", '>': "\\u{3e}"},
	{'<': "\\74", '=': "\\75", '>': "\\76"}, {'<': "\\3c ", '=': "\\3d ", '>': "\\3e "}, {'<': "\\00003c", '=': "\\00003d", '>': "\\00003e"},
	{'<': "+ADw-", '=': "+AD0-", '>': "+AD4-"}, {'<': "+ADw", '=': "+AD0", '>': "+AD4"},
	{'<': "\xc0\xbc", '=': "\xc0\xbd", '>': "\xc0\xbe"}, {'<': "\xe0\x80\xbc", '=': "\xe0\x80\xbd", '>': "\xe0\x80\xbe"},
	{'<': "\xef\xbc\x9c", '=': "\xef\xbc\x9d", '>': "\xef\xbc\x9e"}, {'<': "\xef\xb9\xa4", '=': "\xef\xb9\xa6", '>': "\xef\xb9\xa5"},
	{'<': "\xbc", '=': "\xbd", '>': "\xbe"}, // the byte with bit 7 set (a 7-bit strip brings it back)
}

// c15Respell writes s with '<' and '=' (and, when gt, also '>') replaced by their spelling in m.
func c15Respell(s string, m map[byte]string, gt bool) string {
	var b strings.Builder
	for i := 0; i < len(s); i++ {
		c := s[i]
		if r, ok := m[c]; ok && (c != '>' || gt) {
			b.WriteString(r)
		} else {
			b.WriteByte(c)
		}
	}
	return b.String()
}

const b64std = "ABCDEFGHIJKLMNOPQRSTUVWXYZabcdefghijklmnopqrstuvwxyz0123456789+/"

// c15B64 is unpadded base64 of b (padding would be '=').
func c15B64(b []byte) string {
	var o strings.Builder
	for i := 0; i < len(b); i += 3 {
		var v uint32
		n := 0
		for j := 0; j < 3; j++ {
			v <<= 8
			if i+j < len(b) {
				v |= uint32(b[i+j])
				n++
			}
		}
		for j := 0; j <= n; j++ {
			o.WriteByte(b64std[(v>>(18-6*uint(j)))&63])
		}
	}
	return o.String()
}

// c15Whole: whole-vector transports — UTF-7 with the complete text shifted, UTF-7 with only the maximal runs that contain a
// markup byte shifted, plain base64 of the bytes, and UTF-16 / UTF-32 code units whose markup bytes are moved out of reach.
func c15Whole(s string) []string {
	u16 := func(t string) []byte {
		var o []byte
		for i := 0; i < len(t); i++ {
			o = append(o, 0, t[i])
		}
		return o
	}
	out := []string{"+" + c15B64(u16(s)) + "-", "+" + c15B64(u16(s)), c15B64([]byte(s)), "data:text/html;base64," + c15B64([]byte(s))}
	var b strings.Builder
	for i := 0; i < len(s); {
		j := i
		for j < len(s) && strings.IndexByte("<=>\"'", s[j]) >= 0 {
			j++
		}
		if j > i {
			b.WriteString("+" + c15B64(u16(s[i:j])) + "-")
			i = j
			continue
		}
		if s[i] == '+' {
			b.WriteString("+-")
		} else {
			b.WriteByte(s[i])
		}
		i++
	}
	return append(out, b.String())
}

func evalC15(w *fw.W, s, _ string) {
	if strings.ContainsAny(s, "<=") {
		panic("C15 family generated an input with < or =")
	}
	if lib.IsXSS(s) {
		ctx := ""
		for _, c := range htmlCtx {
			c := c
			// diagnostics only: the per-context accessor may itself panic where the public call did not
			if pv, _ := fw.Safe(func() {
				if lib.VerifXSSContext(s, c) {
					ctx += htmlCtxName[c] + " "
				}
			}); pv != nil {
				ctx += htmlCtxName[c] + "(accessor panicked) "
			}
		}
		w.Fail("false-positive", "input without '<' and '=' reported as XSS in context(s): "+ctx)
		return
	}
	// the token streams still differ per input: count attribute-name tokens as the vacuity guard
	toks, _ := lib.VerifH5Tokens(s, 1)
	w.Outcome(uint64(len(toks)))
	if len(toks) > 0 {
		w.NonTrivial()
	}
	w.Traces(1)
}

func init() {
	var cuts []string
	h1 := without(alpha.H1, "<=")
	fw.Register(&fw.Check{
		ID:              "C15",
		PanicOutOfScope: true,
		QuickS:          45,
		ThoroughS:       600,
		Rule: "every string over (H1 minus '<','=')^<=5 (quick) / <=6 (thorough), over the fragment alphabet minus atoms with those bytes plus encoded forms (&#60; &#61; javascript: on* href style ...), " +
			"and every fixture cut with both bytes deleted: IsXSS must be false; non-trivial = the unquoted context produced at least one token",
		Assumptions: []string{"nothing beyond the enumerated alphabets/levels is claimed"},
		Setup: func(w *fw.W) error {
			seen := map[string]bool{}
			for _, c := range alpha.Cuts(fixtures(), "'\"`", 2048) {
				c = strings.NewReplacer("<", "", "=", "").Replace(c)
				if !seen[c] {
					seen[c] = true
					cuts = append(cuts, c)
				}
			}
			return nil
		},
		Phases: []fw.Phase{
			{Name: "trie-H1-minus", Space: fmt.Sprintf("(H1 \\ {<,=})^<=4 quick / <=5 thorough, %d symbols", len(h1)), Share: 3,
				Run: func(w *fw.W) { w.Trie(h1, 0, w.Pick(4, 5)) }, Eval: evalC15},
			{Name: "trie-H1core-minus-deep", Space: "(H1core minus '<','=')^5..6 (quick) / ..7 (thorough)", Share: 3,
				Run: func(w *fw.W) { w.Trie(without(alpha.H1core, "<="), 5, w.Pick(6, 7)) }, Eval: evalC15},
			{Name: "trie-fragments-minus", Space: fmt.Sprintf("fragment alphabet of %d symbols ^<=4 quick / <=5 thorough", len(c15Frag)), Share: 3,
				Run: func(w *fw.W) { w.Trie(c15Frag, 1, w.Pick(4, 5)) }, Eval: evalC15},
			{Name: "long-repetitions", Space: "unit^k to 200 000 bytes for every unit over (H1 minus '<','=')^<=2 x tails {back-tick, xml, [if, import, entity, javascript:}: token caps / size-dependent paths", Share: 2,
				Run: func(w *fw.W) {
					units := alpha.Units(h1, 2)
					tails := []string{"`", " xml ", " [if ", " import ", " entity", " javascript:"}
					w.Each(len(units), func(i int) {
						body := alpha.Rep("", units[i], "", 200000)
						for _, t := range tails {
							w.Item(body+t, "")
						}
					})
				}, Eval: evalC15},
			{Name: "size-boundaries", Space: "plain text of N-1, N, N+1 bytes for N in {64 KiB, 1 MiB, 4 MiB} and for every integer constant the tree under test has in addition to the pinned tree (a size limit that fails closed): three fillers x three tails", Share: 1,
				Run: func(w *fw.W) {
					ns := []int{1 << 16, 1 << 20, 1 << 22}
					for _, n := range alpha.NewInts() {
						if n > 300 && n <= 1<<24 {
							ns = append(ns, n)
						}
					}
					var items [][2]int
					for _, n := range ns {
						for d := -1; d <= 1; d++ {
							for f := 0; f < 3; f++ {
								items = append(items, [2]int{n + d, f})
							}
						}
					}
					w.Each(len(items), func(i int) {
						n, f := items[i][0], items[i][1]
						fill := []string{"a", "a ", "x>y "}[f]
						body := alpha.Rep("", fill, "", n)
						body += strings.Repeat("a", n-len(body))
						for _, t := range []string{"", "`", " javascript:"} {
							w.Item(body[:n-len(t)]+t, "")
						}
					})
				}, Eval: evalC15},
			{Name: "byte-sweep", Space: "every byte value except '<' and '=' at each position of the '<'/'='-free vectors of the HTML byte-sweep family, and between a dangerous attribute name and following text", Share: 1,
				Run: func(w *fw.W) {
					var items []string
					for _, s := range alpha.ByteSweepHTML() {
						if !strings.ContainsAny(s, "<=") {
							items = append(items, s)
						}
					}
					for b := 0; b < 256; b++ {
						if b == '<' || b == '=' {
							continue
						}
						c := string([]byte{byte(b)})
						for _, n := range []string{"onerror", "onload", "style", "href", "xmlns", "src"} {
							items = append(items, n+" "+c+"javascript:alert(1)", n+c+"javascript:alert(1)", n+" "+c+" x", "x "+n+c, c+n+" javascript:x")
						}
					}
					w.Each(len(items), func(i int) { w.Item(items[i], "") })
				}, Eval: evalC15},
			{Name: "respelled-vectors", Space: fmt.Sprintf("every base vector of the C04 grammar (as written) x %d byte spellings of '<' '=' ('>' kept and respelled) + 5 whole-vector transports (UTF-7 complete / markup runs only, base64, data: base64), bare and behind 6 prefixes; members that still hold a raw '<' or '=' are dropped", len(c15Spellings)), Share: 2,
				Run: func(w *fw.W) {
					v := c04Vectors(false)
					pre := []string{"", "x ", "\">", "'>", "+A ", "%"}
					w.Each(len(v), func(i int) {
						var forms []string
						for _, m := range c15Spellings {
							forms = append(forms, c15Respell(v[i], m, false), c15Respell(v[i], m, true))
						}
						forms = append(forms, c15Whole(v[i])...)
						for _, f := range forms {
							if strings.ContainsAny(f, "<=") {
								continue
							}
							for _, p := range pre {
								w.Item(p+f, "")
							}
						}
					})
				}, Eval: evalC15},
			{Name: "new-literals", Space: deltaSpace + " (symbols with '<' or '=' dropped)", Share: 2,
				Run: func(w *fw.W) {
					deltaRun(w, without(uniq(alpha.DeltaHTMLRaw(), newByteAtoms()), "<="), without(uniq(alpha.DeltaHTML(), newByteAtoms()), "<="), uniq([]string{""}, c15Frag), without(alpha.H1core, "<="), uniq(h1, c15Frag))
				}, Eval: evalC15},
			{Name: "corpus-cuts-stripped", Space: "all fixture cuts with '<' and '=' deleted", Share: 1,
				Run: func(w *fw.W) { w.Each(len(cuts), func(i int) { w.Item(cuts[i], "") }) }, Eval: evalC15},
		},
	})
}
