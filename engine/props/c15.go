package props

import (
	"fmt"
	"strings"

	lib "github.com/corazawaf/libinjection-go"

	"verif/alpha"
	"verif/fw"
)

// C15 — text without '<' and without '=' is never reported as XSS.

func without(a []string, bad string) []string {
	var out []string
	for _, s := range a {
		if !strings.ContainsAny(s, bad) {
			out = append(out, s)
		}
	}
	return out
}

var c15Frag = append(without(alpha.H2, "<="), "&#60;", "&#61;", "&#x3c", "&#x3d;", "javascript:", "onerror", "href", "style", "src", "data:", "xmlns", "-->", "]]>", "%>", ">", "/>", "' ", "\" ")

func evalC15(w *fw.W, s, _ string) {
	if strings.ContainsAny(s, "<=") {
		panic("C15 family generated an input with < or =")
	}
	if lib.IsXSS(s) {
		ctx := ""
		for _, c := range htmlCtx {
			c := c
			// diagnostics only: the per-context accessor may itself panic where the public call did not
			if pv, _ := fw.Safe(func() {
				if lib.VerifXSSContext(s, c) {
					ctx += htmlCtxName[c] + " "
				}
			}); pv != nil {
				ctx += htmlCtxName[c] + "(accessor panicked) "
			}
		}
		w.Fail("false-positive", "input without '<' and '=' reported as XSS in context(s): "+ctx)
		return
	}
	// the token streams still differ per input: count attribute-name tokens as the vacuity guard
	toks, _ := lib.VerifH5Tokens(s, 1)
	w.Outcome(uint64(len(toks)))
	if len(toks) > 0 {
		w.NonTrivial()
	}
	w.Traces(1)
}

func init() {
	var cuts []string
	h1 := without(alpha.H1, "<=")
	fw.Register(&fw.Check{
		ID:              "C15",
		PanicOutOfScope: true,
		QuickS:          45,
		ThoroughS:       600,
		Rule: "every string over (H1 minus '<','=')^<=5 (quick) / <=6 (thorough), over the fragment alphabet minus atoms with those bytes plus encoded forms (&#60; &#61; javascript: on* href style ...), " +
			"and every fixture cut with both bytes deleted: IsXSS must be false; non-trivial = the unquoted context produced at least one token",
		Assumptions: []string{"nothing beyond the enumerated alphabets/levels is claimed"},
		Setup: func(w *fw.W) error {
			seen := map[string]bool{}
			for _, c := range alpha.Cuts(fixtures(), "'\"`", 2048) {
				c = strings.NewReplacer("<", "", "=", "").Replace(c)
				if !seen[c] {
					seen[c] = true
					cuts = append(cuts, c)
				}
			}
			return nil
		},
		Phases: []fw.Phase{
			{Name: "trie-H1-minus", Space: fmt.Sprintf("(H1 \\ {<,=})^<=4 quick / <=5 thorough, %d symbols", len(h1)), Share: 3,
				Run: func(w *fw.W) { w.Trie(h1, 0, w.Pick(4, 5)) }, Eval: evalC15},
			{Name: "trie-H1core-minus-deep", Space: "(H1core minus '<','=')^5..6 (quick) / ..7 (thorough)", Share: 3,
				Run: func(w *fw.W) { w.Trie(without(alpha.H1core, "<="), 5, w.Pick(6, 7)) }, Eval: evalC15},
			{Name: "trie-fragments-minus", Space: fmt.Sprintf("fragment alphabet of %d symbols ^<=4 quick / <=5 thorough", len(c15Frag)), Share: 3,
				Run: func(w *fw.W) { w.Trie(c15Frag, 1, w.Pick(4, 5)) }, Eval: evalC15},
			{Name: "long-repetitions", Space: "unit^k to 200 000 bytes for every unit over (H1 minus '<','=')^<=2 x tails {back-tick, xml, [if, import, entity, javascript:}: token caps / size-dependent paths", Share: 2,
				Run: func(w *fw.W) {
					units := alpha.Units(h1, 2)
					tails := []string{"`", " xml ", " [if ", " import ", " entity", " javascript:"}
					w.Each(len(units), func(i int) {
						body := alpha.Rep("", units[i], "", 200000)
						for _, t := range tails {
							w.Item(body+t, "")
						}
					})
				}, Eval: evalC15},
			{Name: "size-boundaries", Space: "plain text of N-1, N, N+1 bytes for N in {64 KiB, 1 MiB, 4 MiB} and for every integer constant the tree under test has in addition to the pinned tree (a size limit that fails closed): three fillers x three tails", Share: 1,
				Run: func(w *fw.W) {
					ns := []int{1 << 16, 1 << 20, 1 << 22}
					for _, n := range alpha.NewInts() {
						if n > 300 && n <= 1<<24 {
							ns = append(ns, n)
						}
					}
					var items [][2]int
					for _, n := range ns {
						for d := -1; d <= 1; d++ {
							for f := 0; f < 3; f++ {
								items = append(items, [2]int{n + d, f})
							}
						}
					}
					w.Each(len(items), func(i int) {
						n, f := items[i][0], items[i][1]
						fill := []string{"a", "a ", "x>y "}[f]
						body := alpha.Rep("", fill, "", n)
						body += strings.Repeat("a", n-len(body))
						for _, t := range []string{"", "`", " javascript:"} {
							w.Item(body[:n-len(t)]+t, "")
						}
					})
				}, Eval: evalC15},
			{Name: "byte-sweep", Space: "every byte value except '<' and '=' at each position of the '<'/'='-free vectors of the HTML byte-sweep family, and between a dangerous attribute name and following text", Share: 1,
				Run: func(w *fw.W) {
					var items []string
					for _, s := range alpha.ByteSweepHTML() {
						if !strings.ContainsAny(s, "<=") {
							items = append(items, s)
						}
					}
					for b := 0; b < 256; b++ {
						if b == '<' || b == '=' {
							continue
						}
						c := string([]byte{byte(b)})
						for _, n := range []string{"onerror", "onload", "style", "href", "xmlns", "src"} {
							items = append(items, n+" "+c+"javascript:alert(1)", n+c+"javascript:alert(1)", n+" "+c+" x", "x "+n+c, c+n+" javascript:x")
						}
					}
					w.Each(len(items), func(i int) { w.Item(items[i], "") })
				}, Eval: evalC15},
			{Name: "new-literals", Space: deltaSpace + " (symbols with '<' or '=' dropped)", Share: 2,
				Run: func(w *fw.W) {
					deltaRun(w, without(uniq(alpha.DeltaHTMLRaw(), newByteAtoms()), "<="), without(uniq(alpha.DeltaHTML(), newByteAtoms()), "<="), uniq([]string{""}, c15Frag), without(alpha.H1core, "<="), uniq(h1, c15Frag))
				}, Eval: evalC15},
			{Name: "corpus-cuts-stripped", Space: "all fixture cuts with '<' and '=' deleted", Share: 1,
				Run: func(w *fw.W) { w.Each(len(cuts), func(i int) { w.Item(cuts[i], "") }) }, Eval: evalC15},
		},
	})
}
