package props

import (
	"encoding/json"
	"fmt"
	"os"
	"path/filepath"
	"sort"
	"strings"

	lib "github.com/corazawaf/libinjection-go"

	"verif/fw"
)

// C20 — shipped detection tables are well-formed and never lose baseline entries.

type baselineTables struct {
	SQL    map[string]string `json:"sql_keywords"` // key -> class character
	Tags   []string          `json:"black_tags"`
	Attrs  map[string]int    `json:"black_attrs"`
	Events map[string]int    `json:"black_events"`
}

func currentTables() baselineTables {
	b := baselineTables{SQL: map[string]string{}, Attrs: map[string]int{}, Events: map[string]int{}}
	for k, v := range lib.VerifSQLKeywords() {
		b.SQL[k] = string([]byte{v})
	}
	tags, attrs, events, _ := lib.VerifXSSTables()
	b.Tags = tags
	for _, a := range attrs {
		b.Attrs[a.Name] = a.Type
	}
	for _, e := range events {
		b.Events[e.Name] = e.Type
	}
	return b
}

// C20DumpBaseline prints the tables of the current tree (used once on the pinned tree).
func C20DumpBaseline() {
	b := currentTables()
	sort.Strings(b.Tags)
	out, _ := json.MarshalIndent(b, "", " ")
	fmt.Println(string(out))
}

func upperClassSet() string {
	return asciiUpper(sqlClassAlphabet)
}

var c20Cur baselineTables
var c20Base baselineTables

func evalC20(w *fw.W, key, kind string) {
	w.Traces(1)
	w.NonTrivial()
	switch kind {
	case "sql":
		val := c20Cur.SQL[key]
		w.OutcomeStr(val)
		if key != asciiUpper(key) || key != strings.ToUpper(key) {
			w.Fail("not-upper", "key is not upper-case: the case-folding look-up can never reach it")
			return
		}
		if len(key) > 31 || len(key) == 0 {
			w.Fail("key-length", fmt.Sprintf("key has %d bytes; words of 32+ bytes are never looked up", len(key)))
			return
		}
		if len(val) != 1 || strings.IndexByte(sqlClassAlphabet, val[0]) < 0 {
			w.Fail("bad-class", fmt.Sprintf("value %q is not a class character", val))
			return
		}
		if val == "F" {
			fp := key[1:]
			if key[0] != '0' || len(fp) < 1 || len(fp) > 5 {
				w.Fail("fingerprint-shape", "fingerprint key must be '0' followed by 1-5 class characters")
				return
			}
			for i := 0; i < len(fp); i++ {
				if strings.IndexByte(upperClassSet(), fp[i]) < 0 {
					w.Fail("fingerprint-shape", fmt.Sprintf("fingerprint key has %q, not an (upper-cased) class character", fp[i]))
					return
				}
			}
			if !lib.VerifBlacklisted(fp) || !lib.VerifBlacklisted(asciiLower(fp)) {
				w.Fail("unreachable", "the real blacklist test does not find this fingerprint")
				return
			}
		}
		if val == "f" && len(key) < 2 {
			w.Fail("function-length", "function names must have at least two characters (the folder reads val[0] and val[1])")
			return
		}
		if got := lib.VerifLookup(key); string([]byte{got}) != val {
			w.Fail("unreachable", fmt.Sprintf("real look-up of the key returns %q", got))
			return
		}
		if got := lib.VerifLookup(asciiLower(key)); string([]byte{got}) != val {
			w.Fail("unreachable", fmt.Sprintf("real look-up of the lower-cased key returns %q", got))
			return
		}
		// a single plain word key must come out of the lexer with its class
		if isIdent(key) && val != "F" {
			toks, _, _ := lib.VerifSQLTokens(asciiLower(key), fNone|fAnsi)
			if len(toks) != 1 || string([]byte{toks[0].Category}) != val {
				w.Fail("lexer-class", fmt.Sprintf("the word lexes to %s, table says %q", fmtImplToksSQL(toks), val))
				return
			}
			w.Traces(1)
		}
	case "tag", "attr", "event":
		if key != asciiUpper(key) || key != strings.ToUpper(key) {
			w.Fail("not-upper", kind+" name is not upper-case: comparison is against upper-cased names")
			return
		}
		if strings.IndexByte(key, 0) >= 0 || key == "" {
			w.Fail("nul", kind+" name is empty or contains NUL")
			return
		}
		switch kind {
		case "tag":
			if len(key) >= 3 && !lib.VerifBlackTag(asciiLower(key)) {
				w.Fail("unreachable", "the real tag predicate does not match this entry")
			}
		case "attr":
			if got := lib.VerifBlackAttr(asciiLower(key)); got != c20Cur.Attrs[key] {
				w.Fail("unreachable", fmt.Sprintf("the real attribute predicate returns %d, table says %d", got, c20Cur.Attrs[key]))
			}
		case "event":
			if got := lib.VerifBlackAttr("on" + asciiLower(key)); len(key) >= 3 && got != c20Cur.Events[key] {
				w.Fail("unreachable", fmt.Sprintf("the real attribute predicate returns %d for on%s, table says %d", got, key, c20Cur.Events[key]))
			}
		}
	case "base-sql":
		if cur, ok := c20Cur.SQL[key]; !ok {
			w.Fail("baseline-lost", fmt.Sprintf("baseline entry (class %q) is no longer in the keyword table", c20Base.SQL[key]))
		} else if cur != c20Base.SQL[key] {
			w.Fail("baseline-changed", fmt.Sprintf("baseline class %q, now %q", c20Base.SQL[key], cur))
		}
	case "base-tag":
		found := false
		for _, t := range c20Cur.Tags {
			if t == key {
				found = true
			}
		}
		if !found {
			w.Fail("baseline-lost", "baseline black tag is no longer listed")
		}
	case "base-attr":
		if cur, ok := c20Cur.Attrs[key]; !ok || cur != c20Base.Attrs[key] {
			w.Fail("baseline-lost", fmt.Sprintf("baseline attribute (type %d) missing or retyped (now %d, present=%v)", c20Base.Attrs[key], cur, ok))
		}
	case "base-event":
		if cur, ok := c20Cur.Events[key]; !ok || cur != c20Base.Events[key] {
			w.Fail("baseline-lost", fmt.Sprintf("baseline event (type %d) missing or retyped (now %d, present=%v)", c20Base.Events[key], cur, ok))
		}
	case "hexmap":
		_, _, _, hm := lib.VerifXSSTables()
		if len(hm) != 256 {
			w.Fail("hexmap", fmt.Sprintf("hex decode map has %d entries, want 256", len(hm)))
			return
		}
		for i, v := range hm {
			want := 256
			switch {
			case i >= '0' && i <= '9':
				want = i - '0'
			case i >= 'a' && i <= 'f':
				want = i - 'a' + 10
			case i >= 'A' && i <= 'F':
				want = i - 'A' + 10
			}
			if v != want {
				w.Fail("hexmap", fmt.Sprintf("hex decode map[%d]=%d, want %d", i, v, want))
				return
			}
		}
	}
}

// evalC20AfterUse: the tables are read again after the detectors have been used on a corpus that
// reaches every lexer, fold rule family and classifier branch; they must be what they were at start-up.
func evalC20AfterUse(w *fw.W, _, _ string) {
	before := currentTables()
	use := append([]string{}, fixtures()...)
	use = append(use, c05SQL...)
	use = append(use, c05XSS...)
	use = append(use, c03Strings(true)...)
	use = append(use, c04Vectors(false)...)
	use = append(use, attrFormsHTML()...) // attribute pairs: what one attribute does to the judgement (and the table entry) of the next
	use = append(use, keywordSweep()...)
	use = append(use, "<set attributeName=\"&#111;nclick\">", "<a attributename=&#x6f;nload>", "<svg xmlns:xl=x><a xl:href=javascript:x>", "1 union all select 1 from dual", "a natural full outer join b")
	// the XSS tables are small: they are re-read after EVERY call (a later input may put a changed entry back);
	// the keyword table is re-read every 512 calls and at the end
	xssSig := func() uint64 {
		tags, attrs, events, hex := lib.VerifXSSTables()
		h := uint64(14695981039346656037)
		mix := func(s string, t int) {
			for i := 0; i < len(s); i++ {
				h = (h ^ uint64(s[i])) * 1099511628211
			}
			h = (h ^ uint64(t+1)) * 1099511628211
		}
		for _, t := range tags {
			mix(t, 0)
		}
		for _, a := range attrs {
			mix(a.Name, a.Type)
		}
		for _, e := range events {
			mix(e.Name, e.Type)
		}
		for _, v := range hex {
			h = (h ^ uint64(v+1)) * 1099511628211
		}
		return h
	}
	sig0 := xssSig()
	for i, s := range use {
		func() {
			defer func() { recover() }()
			lib.IsSQLi(s)
			lib.IsXSS(s)
		}()
		if xssSig() != sig0 {
			w.Fail("table-changed-at-run-time", fmt.Sprintf("the XSS tables (tags, attributes, events, hex map) differ from their start-up contents after call %d of the detectors, input %q", i+1, s))
			return
		}
		if i%512 == 511 {
			cur := lib.VerifSQLKeywords()
			if len(cur) != len(before.SQL) {
				w.Fail("table-changed-at-run-time", fmt.Sprintf("the keyword table has %d entries after call %d (input %q), %d at start-up", len(cur), i+1, s, len(before.SQL)))
				return
			}
			for k, v := range cur {
				if before.SQL[k] != string([]byte{v}) {
					w.Fail("table-changed-at-run-time", fmt.Sprintf("keyword entry %q is %q after call %d (input %q), %q at start-up", k, v, i+1, s, before.SQL[k]))
					return
				}
			}
		}
	}
	after := currentTables()
	w.Traces(len(use))
	w.NonTrivial()
	diff := func(kind, k, a, b string) {
		w.Fail("table-changed-at-run-time", fmt.Sprintf("%s entry %q was %s at start-up and is %s after %d calls of the detectors", kind, k, a, b, len(use)))
	}
	for _, k := range sortedKeys(before.SQL) {
		v := before.SQL[k]
		if after.SQL[k] != v {
			diff("keyword", k, fmt.Sprintf("%q", v), fmt.Sprintf("%q", after.SQL[k]))
			return
		}
	}
	for _, k := range sortedKeysI(before.Attrs) {
		v := before.Attrs[k]
		if a, ok := after.Attrs[k]; !ok || a != v {
			diff("black attribute", k, fmt.Sprint(v), fmt.Sprintf("%d (present=%v)", a, ok))
			return
		}
	}
	for _, k := range sortedKeysI(before.Events) {
		v := before.Events[k]
		if a, ok := after.Events[k]; !ok || a != v {
			diff("event", k, fmt.Sprint(v), fmt.Sprintf("%d (present=%v)", a, ok))
			return
		}
	}
	if strings.Join(before.Tags, ",") != strings.Join(after.Tags, ",") {
		diff("black tag list", "*", strings.Join(before.Tags, ","), strings.Join(after.Tags, ","))
	}
}

func sortedKeys(m map[string]string) []string {
	var k []string
	for s := range m {
		k = append(k, s)
	}
	sort.Strings(k)
	return k
}

func sortedKeysI(m map[string]int) []string {
	var k []string
	for s := range m {
		k = append(k, s)
	}
	sort.Strings(k)
	return k
}

func init() {
	type item struct{ key, kind string }
	var items []item
	fw.Register(&fw.Check{
		ID:        "C20",
		QuickS:    30,
		ThoroughS: 60,
		Rule: "every entry of the five shipped tables (SQL keyword/fingerprint table, black tags, black attributes, event names, hex map) is one state: well-formedness per the statement plus reachability through the REAL look-up paths (upper and lower-cased probe, blacklist test, tag/attribute predicates, lexer class of single-word keys); " +
			"every entry of the committed pinned baseline snapshot must still be present with the same classification; finite and enumerated completely in both tiers; all entries distinct and non-trivial",
		Assumptions: []string{"/verif/baseline/tables.json was dumped once from the pinned tree through the accessors"},
		Setup: func(w *fw.W) error {
			c20Cur = currentTables()
			b, err := os.ReadFile(filepath.Join(fw.Root(), "baseline", "tables.json"))
			if err != nil {
				return err
			}
			if err := json.Unmarshal(b, &c20Base); err != nil {
				return err
			}
			items = nil
			for _, k := range sortedKeys(c20Cur.SQL) {
				items = append(items, item{k, "sql"})
			}
			for _, t := range c20Cur.Tags {
				items = append(items, item{t, "tag"})
			}
			for _, k := range sortedKeysI(c20Cur.Attrs) {
				items = append(items, item{k, "attr"})
			}
			for _, k := range sortedKeysI(c20Cur.Events) {
				items = append(items, item{k, "event"})
			}
			items = append(items, item{"", "hexmap"})
			for _, k := range sortedKeys(c20Base.SQL) {
				items = append(items, item{k, "base-sql"})
			}
			for _, t := range c20Base.Tags {
				items = append(items, item{t, "base-tag"})
			}
			for _, k := range sortedKeysI(c20Base.Attrs) {
				items = append(items, item{k, "base-attr"})
			}
			for _, k := range sortedKeysI(c20Base.Events) {
				items = append(items, item{k, "base-event"})
			}
			return nil
		},
		Phases: []fw.Phase{
			{Name: "tables", Space: "all entries of the current tables + all entries of the pinned baseline", Share: 1,
				Run:  func(w *fw.W) { w.Each(len(items), func(i int) { w.Item(items[i].key, items[i].kind) }) },
				Eval: evalC20},
			{Name: "tables-after-use", Space: "the five tables re-read after ~140 000 calls of both detectors over the fixtures, the C05 operations, the C03 / C04 grammars, every attribute pair of the attribute-forms family and the keyword sweep: every start-up entry must be unchanged (baseline entries are never lost at run time either)", Share: 1, Serial: true,
				Run:  func(w *fw.W) { w.Item("", "after-use"); w.Finish() },
				Eval: evalC20AfterUse},
		},
	})
}
