package props

import (
	"fmt"

	lib "github.com/corazawaf/libinjection-go"

	"verif/alpha"
	"verif/fw"
	"verif/refsql"
)

// C06 — SQLi pipeline conforms to the reference model.

// evalC06 compares, for one input: the scan steps and the folded window in all six modes,
// the per-context fingerprint/blacklist/verdict/statistics, and the public cascade.
func evalC06(w *fw.W, s, _ string) {
	m := sqlRef()
	sig := make([]byte, 0, 48)
	for _, fl := range sqlModes {
		md := refMode(fl)
		// token stream
		impl, ist, capped := lib.VerifSQLTokens(s, fl)
		if capped {
			w.Fail("no-progress", "mode "+modeName(fl)+": tokenizer exceeded len+2 steps")
			return
		}
		ref, rst, rpos := m.Tokens(s, md)
		if d := compareSteps(impl, ref); d != "" {
			w.Fail("tokens", "mode "+modeName(fl)+": "+d)
			return
		}
		if ist.Pos != rpos || ist.DDX != rst.DDX || ist.Hash != rst.Hash || ist.Tokens != rst.Tokens {
			w.Fail("scan-stats", fmt.Sprintf("mode %s: impl pos=%d ddx=%d hash=%d tokens=%d model pos=%d ddx=%d hash=%d tokens=%d", modeName(fl),
				ist.Pos, ist.DDX, ist.Hash, ist.Tokens, rpos, rst.DDX, rst.Hash, rst.Tokens))
			return
		}
		// folded window
		ftoks, n, fst := lib.VerifSQLFold(s, fl)
		rf := m.Fold(s, md)
		if n != len(rf.Toks) {
			w.Fail("fold", fmt.Sprintf("mode %s: fold length impl=%d model=%d | impl: %s | model: %s", modeName(fl), n, len(rf.Toks), fmtImplToksSQL(ftoks), fmtRefToksSQL(rf.Toks)))
			return
		}
		if d := compareToks(ftoks, rf.Toks); d != "" {
			w.Fail("fold", "mode "+modeName(fl)+": "+d)
			return
		}
		if !sameStats(fst, rf.Stats) || fst.Pos != rf.Pos {
			w.Fail("fold-stats", fmt.Sprintf("mode %s: impl %+v model %+v pos=%d", modeName(fl), fst, rf.Stats, rf.Pos))
			return
		}
		// context decision
		ic := lib.VerifSQLContext(s, fl)
		rc := m.Context(s, md)
		if ic.Fingerprint != rc.Fingerprint || ic.Blacklisted != rc.Blacklisted || ic.Verdict != rc.Verdict {
			w.Fail("context", fmt.Sprintf("mode %s: impl fp=%q black=%v sqli=%v | model fp=%q black=%v sqli=%v | folded: %s", modeName(fl),
				ic.Fingerprint, ic.Blacklisted, ic.Verdict, rc.Fingerprint, rc.Blacklisted, rc.Verdict, fmtRefToksSQL(rc.Toks)))
			return
		}
		w.Traces(3)
		sig = append(sig, rc.Fingerprint...)
		if rc.Verdict {
			sig = append(sig, '!')
		}
		sig = append(sig, '|')
	}
	ib, ifp := lib.IsSQLi(s)
	rb, rfp := m.IsSQLi(s)
	if ib != rb || ifp != rfp {
		w.Fail("cascade", fmt.Sprintf("IsSQLi impl=(%v,%q) model=(%v,%q)", ib, ifp, rb, rfp))
		return
	}
	w.Traces(1)
	w.OutcomeStr(string(sig))
	if len(sig) > 6 {
		w.NonTrivial()
	}
	if w.WantSample() && rb && len(s) > 4 {
		rc := m.Context(s, refsql.AsIsANSI)
		w.Sample(map[string]any{"input": s, "model_folded_asis_ansi": fmtRefToksSQL(rc.Toks), "model_fingerprint": rc.Fingerprint, "sqli": rb, "fingerprint": rfp})
	}
}

func init() {
	var cuts []string
	fw.Register(&fw.Check{
		ID:        "C06",
		QuickS:    90,
		ThoroughS: 1200,
		Rule: "every string over the SQL byte / fragment / token-class alphabets up to the completed level and every fixture cut: one model trace per (input, mode) - scan steps with offsets, token fields, folded window, statistics, fingerprint, blacklist bit, verdict - " +
			"is compared field by field with the implementation in all six modes, plus the public cascade; non-trivial = at least one mode has a non-empty fingerprint; distinct_outcomes = distinct vectors of per-mode fingerprints and verdicts",
		Assumptions: []string{
			"refsql was written from the libinjection algorithm description independently of the port; it takes the project's keyword table as data; mirrored port-level behaviours are listed in DESIGN.md section 6",
		},
		Setup: func(w *fw.W) error {
			sqlRef()
			cuts = alpha.Cuts(fixtures(), "'\"`", 4096)
			return nil
		},
		Phases: []fw.Phase{
			{Name: "trie-S1-bytes", Space: "S1^<=3 (quick) / <=4 (thorough) x 6 modes", Share: 3,
				Run: func(w *fw.W) { w.Trie(alpha.S1, 0, w.Pick(3, 4)) }, Eval: evalC06},
			{Name: "trie-S1core", Space: "S1core^4 (quick) / ^5 (thorough) x 6 modes", Share: 4,
				Run: func(w *fw.W) { w.Trie(alpha.S1core, 4, w.Pick(4, 5)) }, Eval: evalC06},
			{Name: "trie-S2-fragments", Space: "S2^<=3 (quick) / <=4 (thorough) x 6 modes", Share: 4,
				Run: func(w *fw.W) { w.Trie(alpha.S2, 1, w.Pick(3, 4)) }, Eval: evalC06},
			{Name: "trie-S3-tokens", Space: "S3^<=3 (quick) / <=4 (thorough) x 6 modes", Share: 4,
				Run: func(w *fw.W) { w.Trie(alpha.S3, 1, w.Pick(3, 4)) }, Eval: evalC06},
			{Name: "trie-S3core-deep", Space: "S3core^5 (quick) / ^6..7 (thorough): windows of 6-7 tokens (5-token special cases, look-ahead token)", Share: 4,
				Run: func(w *fw.W) { w.Trie(alpha.S3core, w.Pick(5, 6), w.Pick(5, 7)) }, Eval: evalC06},
			closurePhase(),
			{Name: "corpus-cuts", Space: "every prefix, suffix and prefix+quote of every fixture x 6 modes", Share: 1,
				Run: func(w *fw.W) { w.Each(len(cuts), func(i int) { w.Item(cuts[i], "") }) }, Eval: evalC06},
		},
	})
}

func init() {
	c := fw.Lookup("C06")
	c.Phases = append(c.Phases, sqlExtraPhases(evalC06, true)...)
}
