package props

import (
	"strings"
	"sync"

	"verif/alpha"
	"verif/fw"
)

// prefixed enumerates prefix + every sequence over syms of length 0..maxLen (complete product).
func prefixed(w *fw.W, prefixes, syms []string, maxLen int) {
	i := 0
	var rec func(s string, d int)
	rec = func(s string, d int) {
		if w.Expired() {
			return
		}
		i++
		if w.Mine(i) {
			w.Item(s, "")
		}
		if d == maxLen {
			return
		}
		for _, a := range syms {
			rec(s+a, d+1)
		}
	}
	for _, p := range prefixes {
		rec(p, 0)
	}
	w.Finish()
}

func list(w *fw.W, items []string) {
	w.Each(len(items), func(i int) { w.Item(items[i], "") })
}

var (
	lenSQLOnce  sync.Once
	lenSQL      []string
	lenHTMLOnce sync.Once
	lenHTML     []string
)

var (
	attrFormsOnce sync.Once
	attrForms     []string
)

func attrFormsHTML() []string {
	attrFormsOnce.Do(func() { attrForms = alpha.AttrFormsHTML() })
	return attrForms
}

func lenFamilySQL() []string {
	lenSQLOnce.Do(func() { lenSQL = append(alpha.LenSQL(), alpha.LenSQL2()...) })
	return lenSQL
}

func lenFamilyHTML() []string {
	lenHTMLOnce.Do(func() {
		htmlLists()
		var ev []string
		for _, e := range hEvents {
			ev = append(ev, e.Name)
		}
		lenHTML = append(alpha.LenHTML(ev), alpha.LenHTML2()...)
	})
	return lenHTML
}

// sqlExtraPhases: the spaces added after the second round of seeded changes, shared by the SQL checks.
func sqlExtraPhases(eval func(w *fw.W, s, aux string), heavy bool) []fw.Phase {
	d := func(w *fw.W, q, t int) int {
		if heavy {
			return w.Pick(q, t)
		}
		return w.Pick(q+1, t+1)
	}
	return []fw.Phase{
		{Name: "trie-S3lit-words", Space: "S3lit (48 literal words the folder compares + case-foldable prefix forms)^<=2..3 (quick) / <=3..4 (thorough)", Share: 3,
			Run: func(w *fw.W) { w.Trie(alpha.S3lit, 1, d(w, 2, 3)) }, Eval: eval},
		{Name: "from-prefix-states", Space: "14 prefixes that put the scanner / cascade into a non-initial situation x S3^<=1..2 (quick) / <=2..3 (thorough)", Share: 3,
			Run: func(w *fw.W) { prefixed(w, alpha.SQLPrefixes, alpha.S3, d(w, 1, 2)) }, Eval: eval},
		{Name: "length-boundaries", Space: "tokens of every class with lengths 1..40 and around 64/128/256 x 4 tails; pairs of word-like tokens with length sums 28..36; dollar tags of length 1..70; word length x total length windows", Share: 1,
			Run: func(w *fw.W) { list(w, lenFamilySQL()) }, Eval: eval},
		{Name: "five-token-patterns", Space: "the four 5-token special patterns with every slot filled by each token that is or becomes the required class (IN, backslash, USER, empty back-tick ...) x continuations of <=2 tokens", Share: 1,
			Run: func(w *fw.W) { list(w, special5Late()) }, Eval: eval},
		{Name: "trie-rewritten-words", Space: "{1 ) ( not in like = + foo select}^<=6 (quick) / <=7 (thorough): the tokens whose class later rules rewrite, in every order", Share: 2,
			Run: func(w *fw.W) {
				w.Trie([]string{"1 ", ") ", "( ", "not ", "in ", "like ", "= ", "+ ", "foo ", "select "}, 4, w.Pick(6, 7))
			}, Eval: eval},
		{Name: "byte-sweep", Space: "every byte value 0..255 at each syntactic position of 43 canonical statements; every ordered pair of 9 blank / control bytes at 13 of them", Share: 1,
			Run: func(w *fw.W) { list(w, append(alpha.ByteSweepSQL(), alpha.PairSweepSQL()...)) }, Eval: eval},
		{Name: "count-sweep", Space: "4 attacks preceded by k copies of each of 12 units (list items, parentheses, blanks, qualified names, the three comment forms, words, strings) for every k in 0..300; a MySQL-only attack behind k '--x' / '#' comments", Share: 1,
			Run: func(w *fw.W) { list(w, alpha.CountSweepSQL()) }, Eval: eval},
		{Name: "keyword-sweep", Space: "every non-fingerprint key of the current keyword table (upper, lower, with U+017F / U+0131 / U+212A for its first s / i / k) in 19 statement positions (alone, called, after ';', after UNION SELECT, before '.', before a back-tick, between operands, doubled)", Share: 1,
			Run: func(w *fw.W) { list(w, keywordSweep()) }, Eval: eval},
		{Name: "separator-sweep", Space: "every sequence of <=3 core tokens and 8 canonical attacks with all blanks replaced by each other separator (TAB LF VT FF CR 0xA0 NUL and an inline comment)", Share: 1,
			Run: func(w *fw.W) { list(w, separatorSweep()) }, Eval: eval},
		{Name: "comment-insertions", Space: "10 statements of 5-8 tokens with each blank replaced by each of 10 comment openers / one-line comments (glued and after a blank): a comment in the middle of the token window, in both dialects", Share: 1,
			Run: func(w *fw.W) { list(w, commentInsertions()) }, Eval: eval},
		{Name: "glued-tokens", Space: "22 literal / number / closing forms immediately followed (no blank) by each of 17 keywords / letters, in 5 statement positions", Share: 1,
			Run: func(w *fw.W) { list(w, gluedTokens()) }, Eval: eval},
		deltaSQLPhase(eval),
	}
}

// htmlExtraPhases: the same for the HTML checks.
func htmlExtraPhases(eval func(w *fw.W, s, aux string), heavy bool) []fw.Phase {
	d := func(w *fw.W, q, t int) int {
		if heavy {
			return w.Pick(q, t)
		}
		return w.Pick(q+1, t+1)
	}
	return []fw.Phase{
		{Name: "from-prefix-states", Space: "17 prefixes that put the tokenizer into a non-initial state (inside an end tag, after a quoted value, after '/') x H2^<=2..3 (quick) / <=3..4 (thorough)", Share: 3,
			Run: func(w *fw.W) { prefixed(w, alpha.HTMLPrefixes, alpha.H2, d(w, 2, 3)) }, Eval: eval},
		{Name: "length-boundaries", Space: "names NUL-padded with 0..64 NULs, names of every length 1..70 with a rune that grows when upper-cased, names/values around 64/128/256 bytes, URL values with 0..1000 junk bytes / zero digits before the scheme", Share: 1,
			Run: func(w *fw.W) { list(w, lenFamilyHTML()) }, Eval: eval},
		{Name: "byte-sweep", Space: "every byte value 0..255 at each syntactic position of 25 canonical vectors; every ordered pair of 9 blank / control bytes at 17 of them", Share: 1,
			Run: func(w *fw.W) { list(w, append(alpha.ByteSweepHTML(), alpha.PairSweepHTML()...)) }, Eval: eval},
		{Name: "count-sweep", Space: "5 vectors preceded by k copies of each of 5 units for every k in 0..300, in 3 breakout forms", Share: 1,
			Run: func(w *fw.W) { list(w, alpha.CountSweepHTML()) }, Eval: eval},
		{Name: "attribute-forms", Space: "12 attribute names of every class x 8 values x every blank / NUL before and after the value inside 3 quotings; every ordered pair of (name, value) x (name, value) in one tag, in two tag forms", Share: 1,
			Run: func(w *fw.W) { list(w, attrFormsHTML()) }, Eval: eval},
		deltaHTMLPhase(eval),
	}
}

// lenVectorsHTML: the members of the length family that are canonical vectors (must be detected).
func lenVectorsHTML() []string {
	htmlLists()
	var ev []string
	for _, e := range hEvents {
		ev = append(ev, e.Name)
	}
	out := alpha.LenHTML(ev)
	for _, s := range alpha.LenHTML2() {
		if strings.Contains(s, " onerror=") || strings.HasPrefix(s, "<script") {
			out = append(out, s)
		}
	}
	return out
}

// special5Late: the four five-token patterns of the folder with each slot filled by every token that is
// (or is rewritten into) the required class - including tokens that only become members after a
// later rule fired (IN -> bareword/operator, backslash -> number, USER( -> function) - followed by
// every continuation of up to two core tokens.
func special5Late() []string {
	num := []string{"1 ", "\\ ", "0x1 ", "1.5 "}
	word := []string{"foo ", "in ", "`` ", "`a` ", "user ", "not in "}
	op := []string{"= ", "+ ", "like ", "in "}
	pats := [][][]string{
		{num, append(append([]string{}, op...), ", "), {"( "}, num, {") "}},
		{word, op, {"( "}, append(append([]string{}, word...), num...), {") "}},
		{num, {") "}, {", "}, {"( "}, num},
		{word, {") "}, op, {"( "}, word},
	}
	var out []string
	for _, p := range pats {
		var rec func(i int, cur string)
		rec = func(i int, cur string) {
			if i == len(p) {
				out = append(out, cur)
				for _, a := range alpha.S3core {
					out = append(out, cur+a)
					for _, b := range []string{"1 ", "foo ", "union ", "select ", ", ", "( ", ") ", "+ ", "/**/ "} {
						out = append(out, cur+a+b)
					}
				}
				return
			}
			for _, t := range p[i] {
				rec(i+1, cur+t)
			}
		}
		rec(0, "")
	}
	return out
}
