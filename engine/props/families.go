package props

import (
	"sync"

	"verif/alpha"
	"verif/fw"
)

// prefixed enumerates prefix + every sequence over syms of length 0..maxLen (complete product).
func prefixed(w *fw.W, prefixes, syms []string, maxLen int) {
	i := 0
	var rec func(s string, d int)
	rec = func(s string, d int) {
		if w.Expired() {
			return
		}
		i++
		if w.Mine(i) {
			w.Item(s, "")
		}
		if d == maxLen {
			return
		}
		for _, a := range syms {
			rec(s+a, d+1)
		}
	}
	for _, p := range prefixes {
		rec(p, 0)
	}
	w.Finish()
}

func list(w *fw.W, items []string) {
	w.Each(len(items), func(i int) { w.Item(items[i], "") })
}

var (
	lenSQLOnce  sync.Once
	lenSQL      []string
	lenHTMLOnce sync.Once
	lenHTML     []string
)

func lenFamilySQL() []string {
	lenSQLOnce.Do(func() { lenSQL = alpha.LenSQL() })
	return lenSQL
}

func lenFamilyHTML() []string {
	lenHTMLOnce.Do(func() {
		htmlLists()
		var ev []string
		for _, e := range hEvents {
			ev = append(ev, e.Name)
		}
		lenHTML = alpha.LenHTML(ev)
	})
	return lenHTML
}

// sqlExtraPhases: the spaces added after the second round of seeded changes, shared by the SQL checks.
func sqlExtraPhases(eval func(w *fw.W, s, aux string), heavy bool) []fw.Phase {
	d := func(w *fw.W, q, t int) int {
		if heavy {
			return w.Pick(q, t)
		}
		return w.Pick(q+1, t+1)
	}
	return []fw.Phase{
		{Name: "trie-S3lit-words", Space: "S3lit (48 literal words the folder compares + case-foldable prefix forms)^<=2..3 (quick) / <=3..4 (thorough)", Share: 3,
			Run: func(w *fw.W) { w.Trie(alpha.S3lit, 1, d(w, 2, 3)) }, Eval: eval},
		{Name: "from-prefix-states", Space: "14 prefixes that put the scanner / cascade into a non-initial situation x S3^<=1..2 (quick) / <=2..3 (thorough)", Share: 3,
			Run: func(w *fw.W) { prefixed(w, alpha.SQLPrefixes, alpha.S3, d(w, 1, 2)) }, Eval: eval},
		{Name: "length-boundaries", Space: "tokens of every class with lengths 1..40 x 4 tails; pairs of word-like tokens with length sums 28..36", Share: 1,
			Run: func(w *fw.W) { list(w, lenFamilySQL()) }, Eval: eval},
	}
}

// htmlExtraPhases: the same for the HTML checks.
func htmlExtraPhases(eval func(w *fw.W, s, aux string), heavy bool) []fw.Phase {
	d := func(w *fw.W, q, t int) int {
		if heavy {
			return w.Pick(q, t)
		}
		return w.Pick(q+1, t+1)
	}
	return []fw.Phase{
		{Name: "from-prefix-states", Space: "17 prefixes that put the tokenizer into a non-initial state (inside an end tag, after a quoted value, after '/') x H2^<=2..3 (quick) / <=3..4 (thorough)", Share: 3,
			Run: func(w *fw.W) { prefixed(w, alpha.HTMLPrefixes, alpha.H2, d(w, 2, 3)) }, Eval: eval},
		{Name: "length-boundaries", Space: "names NUL-padded with 0..64 NULs, URL values with 0..1000 junk bytes / zero digits before the scheme", Share: 1,
			Run: func(w *fw.W) { list(w, lenFamilyHTML()) }, Eval: eval},
	}
}
