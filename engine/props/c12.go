package props

import (
	"fmt"
	"strings"

	lib "github.com/corazawaf/libinjection-go"

	"verif/alpha"
	"verif/fw"
)

// C12 — IsSQLi equals the disjunction of its documented parsing contexts.

func classes(ts []lib.VerifSQLTok) string {
	b := make([]byte, len(ts))
	for i, t := range ts {
		b[i] = t.Category
	}
	return string(b)
}

func evalC12(w *fw.W, s, _ string) {
	// A: the cascade, recomputed from fresh-state per-context results
	wantB, wantF := false, ""
	for _, c := range reachableContexts(s) {
		r := lib.VerifSQLContext(s, c)
		if r.Verdict {
			wantB, wantF = true, r.Fingerprint
			break
		}
	}
	if s == "" {
		wantB, wantF = false, ""
	}
	// the re-parse gate itself: "a '#' or a '--x' comment was seen by that ANSI pass", counted by the reference scanner
	for _, q := range []int{fNone, fSingle} {
		if q == fSingle && strings.IndexByte(s, '\'') < 0 {
			continue
		}
		is := lib.VerifSQLContext(s, q|fAnsi).Stats
		rs := sqlRef().Context(s, refMode(q|fAnsi)).Stats
		if (is.DDX != 0 || is.Hash != 0) != (rs.DDX != 0 || rs.Hash != 0) {
			w.Fail("gate", fmt.Sprintf("%s pass: the reference scanner counts %d '--x' and %d '#' comments, the pass reports %d and %d: the MySQL re-reading is gated differently",
				modeName(q|fAnsi), rs.DDX, rs.Hash, is.DDX, is.Hash))
			return
		}
	}
	b, f := lib.IsSQLi(s)
	if b != wantB || f != wantF {
		w.Fail("cascade", fmt.Sprintf("IsSQLi=(%v,%q) but the first firing documented context gives (%v,%q)", b, f, wantB, wantF))
		return
	}
	w.Traces(1)
	if b {
		w.NonTrivial()
	}
	// B: reading s inside a quote == reading quote+s as-is
	if s != "" {
		for _, q := range []struct {
			ch byte
			fl int
		}{{'\'', fSingle}, {'"', fDouble}} {
			for _, d := range []int{fAnsi, fMysql} {
				in := lib.VerifSQLContext(s, q.fl|d)
				as := lib.VerifSQLContext(string([]byte{q.ch})+s, fNone|d)
				w.Traces(1)
				if in.Fingerprint != as.Fingerprint || classes(in.Toks) != classes(as.Toks) {
					w.Fail("virtual-quote", fmt.Sprintf("inside %c (%s): fingerprint %q classes %q; %c+s as-is: fingerprint %q classes %q", q.ch, modeName(q.fl|d),
						in.Fingerprint, classes(in.Toks), q.ch, as.Fingerprint, classes(as.Toks)))
					return
				}
				if in.Verdict != as.Verdict && in.Fingerprint != "sos" && in.Fingerprint != "s&s" {
					w.Fail("virtual-quote-verdict", fmt.Sprintf("inside %c (%s): verdict %v; %c+s as-is: %v (fingerprint %q)", q.ch, modeName(q.fl|d), in.Verdict, q.ch, as.Verdict, in.Fingerprint))
					return
				}
			}
		}
	}
	// C: history independence on ONE reused scanner object: every ordered pair (thorough: triple) of modes
	fresh := make([]lib.VerifSQLCtx, len(sqlModes))
	for i, m := range sqlModes {
		fresh[i] = lib.VerifSQLContext(s, m)
	}
	same := func(a, b lib.VerifSQLCtx) bool {
		return a.Fingerprint == b.Fingerprint && a.Verdict == b.Verdict && a.Blacklisted == b.Blacklisted && a.Stats == b.Stats
	}
	sig := ""
	for i := range sqlModes {
		sig += fresh[i].Fingerprint + "|"
		for j := range sqlModes {
			seq := lib.VerifSQLContextSeq(s, []int{sqlModes[i], sqlModes[j]})
			w.Traces(1)
			if !same(seq[0], fresh[i]) || !same(seq[1], fresh[j]) {
				w.Fail("history", fmt.Sprintf("reading %s after %s on one scanner object gives fp=%q sqli=%v stats=%+v; on a fresh one fp=%q sqli=%v stats=%+v",
					modeName(sqlModes[j]), modeName(sqlModes[i]), seq[1].Fingerprint, seq[1].Verdict, seq[1].Stats, fresh[j].Fingerprint, fresh[j].Verdict, fresh[j].Stats))
				return
			}
			if w.Thorough() && len(s) <= 12 {
				for k := range sqlModes {
					seq3 := lib.VerifSQLContextSeq(s, []int{sqlModes[i], sqlModes[j], sqlModes[k]})
					w.Traces(1)
					if !same(seq3[2], fresh[k]) {
						w.Fail("history", fmt.Sprintf("reading %s after %s,%s differs from a fresh reading", modeName(sqlModes[k]), modeName(sqlModes[i]), modeName(sqlModes[j])))
						return
					}
				}
			}
		}
	}
	w.OutcomeStr(sig)
}

func init() {
	var cuts []string
	fw.Register(&fw.Check{
		ID:        "C12",
		QuickS:    75,
		ThoroughS: 720,
		Rule: "every string over the SQL byte / fragment / token-class alphabets up to the completed level and every fixture cut: (A) IsSQLi = first firing element of [as-is/ANSI, as-is/MySQL*, '/ANSI**, '/MySQL*, \"/MySQL***] computed from fresh-state per-context results; " +
			"(B) for both quotes and both dialects, reading s inside the quote gives the fingerprint and token classes of quote+s read as-is, verdicts equal unless sos/s&s; (C) on one reused scanner object every ordered pair (thorough: triple) of the six modes gives the fresh-state result incl. counters; " +
			"non-trivial = IsSQLi true; distinct_outcomes = distinct six-mode fingerprint vectors",
		Assumptions: []string{"the gate '#'/'--x seen' is read from the ANSI pass' own counters (hook) and must agree with the comment counts of the reference scanner (refsql)"},
		Setup: func(w *fw.W) error {
			cuts = alpha.Cuts(fixtures(), "'\"`", 2048)
			return nil
		},
		Phases: []fw.Phase{
			{Name: "trie-S1-bytes", Space: "S1^<=3 (quick) / <=4 (thorough)", Share: 3, Run: func(w *fw.W) { w.Trie(alpha.S1, 0, w.Pick(3, 4)) }, Eval: evalC12},
			{Name: "trie-S2-fragments", Space: "S2^<=3 (quick) / <=4 (thorough)", Share: 4, Run: func(w *fw.W) { w.Trie(alpha.S2, 1, w.Pick(3, 4)) }, Eval: evalC12},
			{Name: "trie-S3-tokens", Space: "S3^<=3 (quick) / <=4 (thorough)", Share: 4, Run: func(w *fw.W) { w.Trie(alpha.S3, 1, w.Pick(3, 4)) }, Eval: evalC12},
			{Name: "corpus-cuts", Space: "all fixture cuts", Share: 1, Run: func(w *fw.W) { w.Each(len(cuts), func(i int) { w.Item(cuts[i], "") }) }, Eval: evalC12},
			{Name: "gates-x-payloads", Space: "20 gate prefixes (which quotes are present, '#' / '--x' seen as-is or inside a quote) x 30 payloads firing in one specific context x 6 tails: every combination of cascade gates", Share: 2,
				Run: func(w *fw.W) {
					var items []string
					for _, g := range c12Gates {
						for _, p := range c12Payloads {
							for _, t := range c12Tails {
								items = append(items, g+p+t)
							}
						}
					}
					w.Each(len(items), func(i int) { w.Item(items[i], "") })
				}, Eval: evalC12},
			{Name: "long-inputs", Space: "gates x payloads followed by 70 000 / 1 100 000 bytes inside a trailing comment or as trailing words", Share: 1,
				Run: func(w *fw.W) {
					var items []string
					for gi, g := range c12Gates {
						for pi, p := range c12Payloads {
							if (gi+pi)%7 != 0 {
								continue
							}
							for _, n := range []int{70000, 1100000} {
								items = append(items, g+p+" -- "+strings.Repeat("a", n), g+p+" "+strings.Repeat("a ", n/2))
							}
						}
					}
					w.Each(len(items), func(i int) { w.Item(items[i], "") })
				}, Eval: evalC12},
		},
	})
}

func init() {
	c := fw.Lookup("C12")
	c.Phases = append(c.Phases, sqlExtraPhases(evalC12, true)...)
}

var c12Gates = []string{"", "x ", "x' ", "x\" ", "x' # ", "x' --y ", "x # ", "x --y ", "x\" # ", "x' #\" ", "x\" #' ", "x' --y\" ", "1 ", "1' ", "1\" ", "x --y/* ", "\xe9' ", "a b c d e f' ", "1 2 3 4 5 6\" ", "a b c d e f # ' "}
var c12Payloads = []string{"or 1=1", "' or 1=1", "\" or 1=1", "union select 1", "' union select 1", "\" union select 1", "'='", "\"=\"", "1", "; drop table t",
	"' ; drop table t", "and 1", "' and '1", "\" and \"1", "or 'a'='a", "or \"a\"=\"a", "-1", "+ 1", "' + '", "\" + \"", "into outfile 'x", "' into outfile 'x",
	"\" into outfile \"x", "/*x*/", "'/*x*/", "sleep(1)", "' or sleep(1) or '", "\" or sleep(1) or \"", "foo", "' foo"}
var c12Tails = []string{"", " -- ", " #", " --x", "/*", " -- sp_password"}
