// Package props holds the per-property checks.
package props

import (
	"fmt"
	"os"
	"strings"
	"sync"

	lib "github.com/corazawaf/libinjection-go"

	"verif/alpha"
)

// SQL mode flags, read from the implementation's own constants.
var (
	fl       = lib.VerifSQLFlags()
	fNone    = fl[0]
	fSingle  = fl[1]
	fDouble  = fl[2]
	fAnsi    = fl[3]
	fMysql   = fl[4]
	sqlModes = []int{fNone | fAnsi, fNone | fMysql, fSingle | fAnsi, fSingle | fMysql, fDouble | fAnsi, fDouble | fMysql}
)

func modeName(m int) string {
	q := "asis"
	if m&fSingle != 0 {
		q = "squote"
	} else if m&fDouble != 0 {
		q = "dquote"
	}
	d := "ansi"
	if m&fMysql != 0 {
		d = "mysql"
	}
	return q + "/" + d
}

// HTML contexts 0..4: data, unquoted, single, double, back-quote.
var htmlCtx = []int{0, 1, 2, 3, 4}
var htmlCtxName = []string{"data", "unquoted", "squote", "dquote", "bquote"}

var (
	corpusOnce sync.Once
	corpus     []string
)

func fixtures() []string {
	corpusOnce.Do(func() { corpus = alpha.Fixtures(alpha.RepoDir()) })
	return corpus
}

func hasNonWhite(s string) bool {
	return strings.TrimLeft(s, " \t\n\r\x00") != ""
}

func short(s string) string {
	q := fmt.Sprintf("%q", s)
	if len(q) > 120 {
		q = q[:120] + "..."
	}
	return q
}

var fwStderr = os.Stderr
