// Package props holds the per-property checks.
package props

import (
	"fmt"
	"os"
	"strings"
	"sync"

	lib "github.com/corazawaf/libinjection-go"

	"verif/alpha"
	"verif/fw"
	"verif/vrt"
)

// SQL mode flags, read from the implementation's own constants.
var (
	fl       = lib.VerifSQLFlags()
	fNone    = fl[0]
	fSingle  = fl[1]
	fDouble  = fl[2]
	fAnsi    = fl[3]
	fMysql   = fl[4]
	sqlModes = []int{fNone | fAnsi, fNone | fMysql, fSingle | fAnsi, fSingle | fMysql, fDouble | fAnsi, fDouble | fMysql}
)

func modeName(m int) string {
	q := "asis"
	if m&fSingle != 0 {
		q = "squote"
	} else if m&fDouble != 0 {
		q = "dquote"
	}
	d := "ansi"
	if m&fMysql != 0 {
		d = "mysql"
	}
	return q + "/" + d
}

// HTML contexts 0..4: data, unquoted, single, double, back-quote.
var htmlCtx = []int{0, 1, 2, 3, 4}
var htmlCtxName = []string{"data", "unquoted", "squote", "dquote", "bquote"}

var (
	corpusOnce sync.Once
	corpus     []string
)

func fixtures() []string {
	corpusOnce.Do(func() { corpus = alpha.Fixtures(alpha.RepoDir()) })
	return corpus
}

func hasNonWhite(s string) bool {
	return strings.TrimLeft(s, " \t\n\r\x00") != ""
}

func short(s string) string {
	q := fmt.Sprintf("%q", s)
	if len(q) > 120 {
		q = q[:120] + "..."
	}
	return q
}

var fwStderr = os.Stderr

// depthLimit is the call-depth bound enforced on the instrumented build: the tokenizers' call
// graphs are shallow (measured maximum on the pinned tree is recorded in the evidence), so any
// depth that grows with the input is recursion.
const depthLimit = 48

// arm sets the deterministic termination budget and the call-depth limit for the next call on the
// instrumented build: budget = 1e6 + 64*n^2 work units for inputs up to 4 KB (a linear scanner
// needs < 100*n; anything polynomial up to cubic on the short trie inputs stays far below 1e6),
// no budget above that (long inputs are covered by the worker watchdog + journal).
func arm(s string) {
	if !vrt.Instrumented() {
		return
	}
	n := int64(len(s))
	var budget int64
	if n <= 4096 {
		budget = 1000000 + 64*n*n
	}
	vrt.ResetCounters(budget, depthLimit)
}

func disarm(w *fw.W) {
	if !vrt.Instrumented() {
		return
	}
	w.ExtraMax("max_call_depth", int64(vrt.MaxDepth()))
	vrt.ResetCounters(0, 0)
}
