package props

import (
	"fmt"

	lib "github.com/corazawaf/libinjection-go"

	"verif/alpha"
	"verif/fw"
)

// C02 — IsXSS is total.

func evalC02Public(w *fw.W, s, _ string) {
	arm(s)
	b := lib.IsXSS(s)
	disarm(w)
	if hasNonWhite(s) {
		w.NonTrivial()
	}
	if b {
		w.Outcome(1)
	} else {
		w.Outcome(0)
	}
	if w.WantSample() && b {
		w.Sample(map[string]any{"input": s, "xss": b})
	}
}

func evalC02Traced(w *fw.W, s, aux string) {
	evalC02Public(w, s, aux)
	sig := ""
	for _, c := range htmlCtx {
		toks, capped := lib.VerifH5Tokens(s, c)
		if capped {
			w.Fail("no-progress", fmt.Sprintf("ctx %s: tokenizer still producing tokens after len+2 steps", htmlCtxName[c]))
			return
		}
		for _, t := range toks {
			if t.PosAfter < 0 || t.PosAfter > len(s) {
				w.Fail("offset-range", fmt.Sprintf("ctx %s: scan offset %d outside [0,%d]", htmlCtxName[c], t.PosAfter, len(s)))
				return
			}
			sig += string(rune('a' + t.Type))
		}
		sig += "|"
		w.Traces(1)
	}
	w.OutcomeStr(sig)
}

var htmlOpeners = []string{"", "<", "<a ", "<a b=", "<a href=", "<a href='", "<a style=\"", "<a b='", "<a b=\"", "<a b=`", "<!--", "<![CDATA[", "<%", "<?", "<!", "<!doctype ", "</", "<a/"}
var c02URLBytes = []string{"&", "#", "x", "X", ";", "0", "9", "a", "F", "g", "j", ":", " ", "\x00", "\x80", "\xff"}
var htmlClosers = []string{"", ">", "<script>"}

func init() {
	var cuts []string
	fw.Register(&fw.Check{
		ID:        "C02",
		QuickS:    45,
		ThoroughS: 720,
		Rule: "every string over the HTML byte/fragment alphabets up to the completed level, every cut of every fixture, every " +
			"opener+unit^k+closer repetition; non-trivial = contains a non-whitespace byte; distinct_outcomes = verdicts / token-type streams over the 5 contexts",
		Assumptions: []string{
			"inputs outside the enumerated alphabets/levels are not covered",
			"stack exhaustion is observed as a fatal error of the worker process on long repetitions, re-run alone 3x before it is reported",
		},
		Setup: func(w *fw.W) error {
			cuts = alpha.Cuts(fixtures(), "'\"`", 4096)
			return nil
		},
		Phases: []fw.Phase{
			{Name: "trie-H1-bytes", Space: "H1^<=4 (quick) / <=5 (thorough), public IsXSS (all 5 contexts)", Share: 3,
				Run: func(w *fw.W) { w.Trie(alpha.H1, 0, w.Pick(4, 5)) }, Eval: evalC02Public},
			{Name: "trie-H1core-deep", Space: "H1core^5..6 (quick) / ^5..7 (thorough)", Share: 3,
				Run: func(w *fw.W) { w.Trie(alpha.H1core, 5, w.Pick(6, 7)) }, Eval: evalC02Public},
			{Name: "trie-H2-fragments", Space: "H2^<=4 (quick) / <=5 (thorough), IsXSS + token trace in 5 contexts", Share: 4,
				Run: func(w *fw.W) { w.Trie(alpha.H2, 1, w.Pick(4, 5)) }, Eval: evalC02Traced},
			{Name: "trie-url-values", Space: "`<a href=\"` + every string over {& # x X ; 0 9 a F g j : space NUL 0x80 0xff}^<=5 (quick) / <=6 (thorough): character references inside a URL-typed value", Share: 2,
				Run:  func(w *fw.W) { w.Trie(c02URLBytes, 1, w.Pick(5, 6)) },
				Eval: func(w *fw.W, s, aux string) { evalC02Public(w, "<a href=\""+s, aux) }},
			{Name: "corpus-cuts", Space: "every prefix, suffix and prefix+quote of every repository fixture", Share: 1,
				Run: func(w *fw.W) {
					w.Each(len(cuts), func(i int) { w.Item(cuts[i], "") })
				}, Eval: evalC02Traced},
			{Name: "repetition", Space: "opener x unit in H1^<=2 x closer at 4K (call-depth and work-budget monitors armed); units H1core^3 and H2^<=2 x 4 openers at 4K; units H1^<=1 (quick) / <=2 (thorough) at 64K; 1 MB (quick) / 8 MB (thorough) for single-byte units", Share: 2,
				Run: func(w *fw.W) {
					runRep(w, alpha.Units(alpha.H1, 2), htmlOpeners, htmlClosers, []int{4096})
					// three-symbol periods (e.g. a complete empty tag) and fragment pairs: a call cycle that adds frames once per period
					var u3 []string
					for _, u := range alpha.Units(alpha.H1core, 3) {
						if len(u) == 3 {
							u3 = append(u3, u)
						}
					}
					runRep(w, u3, []string{"", "<a ", "<a b=", "</"}, []string{""}, []int{4096})
					runRep(w, alpha.Units(alpha.H2, 2), []string{"", "<a ", "<a b=", "</"}, []string{""}, []int{4096})
					runRep(w, alpha.Units(alpha.H1, w.Pick(1, 2)), htmlOpeners, htmlClosers, []int{65536})
					runRep(w, alpha.Units(alpha.H1, 1), []string{"", "<a ", "<a b=", "<"}, []string{""}, []int{w.Pick(1<<20, 8<<20)})
				}, Eval: evalC02Public},
		},
	})
}

func init() {
	c := fw.Lookup("C02")
	c.Phases = append(c.Phases, htmlExtraPhases(evalC02Traced, false)...)
}
