package props

import (
	"fmt"
	"strings"
	"sync"

	lib "github.com/corazawaf/libinjection-go"

	"verif/alpha"
	"verif/fw"
)

// C13 — XSS contexts mean what they say; surrounding text cannot hide a vector.

var embedPrefix = []string{"", "<a ", "<a b='", "<a b=\"", "<a b=`"}

// prefixes without '<' for the "prepending text never changes the element-content verdict" part
var (
	c13PreOnce sync.Once
	c13PreAll  []string
)

// c13PreNow: the '<'-free prefix texts plus, for every literal the tree under test has in addition to the pinned
// tree (and that has no '<'), the literal alone and followed by each byte that can continue a tag opener.
func c13PreNow() []string {
	c13PreOnce.Do(func() {
		c13PreAll = append([]string{}, c13Pre...)
		for _, a := range without(uniq(alpha.DeltaHTML(), newByteAtoms()), "<") {
			for _, x := range []string{"", "a", "a ", "!", "!--", "!doctype ", "/", "/a ", "?", "%", "script "} {
				c13PreAll = append(c13PreAll, a+x)
			}
		}
	})
	return c13PreAll
}

var c13Pre = []string{"a", " ", ">", "'", "\"", "`", "=", "/", "-", "x=1 ", "a>b", "\x00", "--", "]]>", "%>", "&#60;", "javascript:", "onerror="}

func evalC13(w *fw.W, s, _ string) {
	var v [5]bool
	or := false
	for _, c := range htmlCtx {
		v[c] = lib.VerifXSSContext(s, c)
		or = or || v[c]
	}
	if pub := lib.IsXSS(s); pub != or {
		w.Fail("or", fmt.Sprintf("IsXSS=%v, contexts=%v", pub, v))
		return
	}
	for c := 1; c < 5; c++ {
		e := embedPrefix[c] + s
		if ev := lib.VerifXSSContext(e, 0); ev != v[c] {
			w.Fail("embed", fmt.Sprintf("context %s verdict=%v but %q as markup=%v", htmlCtxName[c], v[c], e, ev))
			return
		}
	}
	for _, t := range c13PreNow() {
		if pv := lib.VerifXSSContext(t+s, 0); pv != v[0] {
			w.Fail("prefix", fmt.Sprintf("data verdict=%v but with %q (no '<') prepended=%v", v[0], t, pv))
			return
		}
	}
	w.Traces(5 + 4 + len(c13PreNow()))
	k := uint64(0)
	for c := range v {
		if v[c] {
			k |= 1 << uint(c)
		}
	}
	w.Outcome(k)
	if or {
		w.NonTrivial()
	}
	if w.WantSample() && k != 0 && k != 31 {
		w.Sample(map[string]any{"input": s, "verdict_per_context": v})
	}
}

func init() {
	var cuts []string
	fw.Register(&fw.Check{
		ID:        "C13",
		QuickS:    60,
		ThoroughS: 600,
		Rule: "every string s over the HTML alphabets up to the completed level and every fixture cut: IsXSS(s) = OR of the five per-context verdicts; " +
			"each attribute-context verdict equals the data-context verdict of s embedded after `<a `, `<a b='`, `<a b=\"`, `<a b=` + back-tick; " +
			"prepending each of 18 '<'-free texts leaves the data verdict unchanged (differential between runs of the real code); non-trivial = XSS in at least one context; " +
			"distinct_outcomes = distinct per-context verdict vectors",
		Assumptions: []string{"the per-context verdict accessor calls the same isXSS(input, flags) the public API calls"},
		Setup: func(w *fw.W) error {
			cuts = alpha.Cuts(fixtures(), "'\"`", 2048)
			return nil
		},
		Phases: []fw.Phase{
			{Name: "trie-H1", Space: "H1^<=4 (quick) / <=5 (thorough)", Share: 3,
				Run: func(w *fw.W) { w.Trie(alpha.H1, 0, w.Pick(4, 5)) }, Eval: evalC13},
			{Name: "trie-H1core-deep", Space: "H1core^5 (quick) / ^5..6 (thorough)", Share: 4,
				Run: func(w *fw.W) { w.Trie(alpha.H1core, 5, w.Pick(5, 6)) }, Eval: evalC13},
			{Name: "trie-H2", Space: "H2^<=4 (quick) / <=5 (thorough)", Share: 3,
				Run: func(w *fw.W) { w.Trie(alpha.H2, 1, w.Pick(4, 5)) }, Eval: evalC13},
			{Name: "corpus-cuts", Space: "all fixture cuts", Share: 1,
				Run: func(w *fw.W) { w.Each(len(cuts), func(i int) { w.Item(cuts[i], "") }) }, Eval: evalC13},
			{Name: "grammar-vectors", Space: "every base vector of the C04 grammar (every black tag / event / URL attribute x scheme / markup form) as written", Share: 2,
				Run: func(w *fw.W) { v := c04Vectors(false); w.Each(len(v), func(i int) { w.Item(v[i], "") }) }, Eval: evalC13},
			{Name: "long-inputs", Space: "every 200th (quick) / 40th (thorough) grammar vector padded before / after with 70 000 and 1 100 000 bytes (size-dependent paths)", Share: 2,
				Run: func(w *fw.W) {
					v := c04Vectors(false)
					pads := []int{70000, 1100000}
					step := w.Pick(200, 40)
					w.Each(len(v)/step+1, func(i int) {
						if i*step >= len(v) {
							return
						}
						for _, n := range pads {
							w.Item(v[i*step]+strings.Repeat("a", n), "")
							w.Item(strings.Repeat("a ", n/2)+v[i*step], "")
						}
					})
				}, Eval: evalC13},
		},
	})
}

func init() {
	c := fw.Lookup("C13")
	c.Phases = append(c.Phases, htmlExtraPhases(evalC13, true)...)
}
