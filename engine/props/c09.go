package props

import (
	"fmt"
	"strings"
	"time"

	lib "github.com/corazawaf/libinjection-go"

	"verif/alpha"
	"verif/fw"
	"verif/vrt"
)

// C09 — both detectors run in time linear in the input length.
//
// Decided on a deterministic cost model bound to the code by the instrumenter: work(s) = loop
// iterations + function entries + bytes handed to every strings/bytes call + sizes of string
// concatenations and conversions. Every other statement is O(1), so running time <= c * work.
// Wall-clock is recorded for the worst families, never judged.

var c09SQLSyms = []string{"'", "\"", "`", "\\", "$", "a", "1", "@", "/", "*", "-", "#", "[", "]", "(", ")", ",", ";", ".", "e", "q", "x", " ", "\n",
	// keyword / operator atoms: a scanner that gives a byte run back after a short keyword prefix re-reads the run
	"or", "mod", "select", "union", "in", "=", "+", "::", "$a$", "--", "/*", "*/", "0x", "\x00", "\xa0",
	// complete single tokens: a per-token cost that depends on the REST of the input only shows when tokens keep coming
	"[a]", "'a'", "`a`", "@a", "/*a*/", "1.0", "a.b", "q'(a)'"}
var c09HTMLSyms = []string{"<", ">", "/", "=", "'", "\"", "`", "!", "-", "?", "%", "]", "&", "#", ";", "x", "1", "a", " ", "\x00", "\t", "[",
	"<!", "<!d", "<a", "<a ", "&#", "-->", "]]>", "%>", "href", "on", "\n"}
var c09SQLOpeners = []string{"", "'", "\"", "/*", "$a$", "q'(", "@`", "1 ", "a", "1 union select "}
var c09HTMLOpeners = []string{"", "<a ", "<a b='", "<!--", "<![CDATA[", "<%", "<a b=", "<!", "<a href=", "<a href=\"", "<a style='", "<a attributename=", "</a ", "</a x="}

const c09PerByte = 2000
const c09Const = 100000

var c09Lens = []int{4096, 16384, 65536}

func c09Work(sql bool, s string) (w int64, exceeded bool) {
	budget := int64(c09PerByte)*int64(len(s)) + c09Const
	vrt.ResetCounters(budget, 0)
	defer func() {
		if r := recover(); r != nil {
			if _, ok := r.(vrt.BudgetExceeded); ok {
				w, exceeded = vrt.Work(), true
				vrt.ResetCounters(0, 0)
				return
			}
			vrt.ResetCounters(0, 0)
			panic(r)
		}
	}()
	if sql {
		lib.IsSQLi(s)
	} else {
		lib.IsXSS(s)
	}
	w = vrt.Work()
	vrt.ResetCounters(0, 0)
	return w, false
}

// evalC09: input is the unit, aux = "sql|opener" or "html|opener".
// tails: a second growing part after the repeated unit (cost that needs two things to grow together)
var c09Tails = []string{"", " ", "\x00", ">", "a", "\n"}

func evalC09(w *fw.W, unit, aux string) {
	if !vrt.Instrumented() {
		panic("C09 needs the instrumented build")
	}
	sql := aux[0] == 's'
	opener := aux[4:]
	if !sql {
		opener = aux[5:]
	}
	tail := ""
	if i := strings.LastIndex(opener, "\x01"); i >= 0 {
		tail, opener = opener[i+1:], opener[:i]
	}
	var works [3]int64
	for i, n := range c09Lens {
		s := alpha.Rep(opener, unit, "", n)
		if strings.Contains(unit, "\x02") {
			s = c09Distinct(opener, unit, n)
		}
		if tail != "" {
			// half of the length goes to the repeated unit, half to the repeated tail byte; a single closing byte for ">"
			if tail == ">" || strings.HasPrefix(tail, "\x03") {
				// one closing token at the very end
				cl := strings.TrimPrefix(tail, "\x03")
				s = alpha.Rep(opener, unit, "", n-len(cl)) + cl
			} else {
				s = alpha.Rep(opener, unit, "", n/2) + strings.Repeat(tail, n/2)
			}
		}
		t0 := time.Now()
		wk, exceeded := c09Work(sql, s)
		el := time.Since(t0)
		works[i] = wk
		w.Traces(1)
		w.ExtraMax("max_work_per_byte_x100", wk*100/int64(len(s)))
		w.ExtraMax("max_wall_us_per_call_informational", el.Microseconds())
		if exceeded {
			w.Fail("cost-per-byte", fmt.Sprintf("%s opener=%q unit=%q at %d bytes: more than %d work units per byte (+%d); work at smaller sizes: %v",
				aux[:4], opener, unit, len(s), c09PerByte, c09Const, works[:i]))
			return
		}
	}
	// linear growth gives a ratio of 4 per step, quadratic 16; small absolute costs are exempt
	for i := 1; i < 3; i++ {
		if works[i] > 6*works[i-1] && works[i] > int64(100*c09Lens[i]) {
			w.Fail("super-linear", fmt.Sprintf("%s opener=%q unit=%q: work %d at %d bytes but %d at %d bytes (ratio %.1f, linear is 4, quadratic 16)",
				aux[:4], opener, unit, works[i-1], c09Lens[i-1], works[i], c09Lens[i], float64(works[i])/float64(works[i-1])))
			return
		}
	}
	w.NonTrivial()
	w.Outcome(uint64(works[2] / int64(c09Lens[2])))
}

// c09Distinct: opener + item(100000) + item(100001) + ... up to n bytes, item(i) = unit with its \x02 place
// holder replaced by i: a family in which every token is DIFFERENT (a cost per token that depends on how many
// distinct tokens came before - a memo, a set, a symbol table - is invisible to unit^k).
func c09Distinct(opener, unit string, n int) string {
	var sb strings.Builder
	sb.Grow(n + 32)
	sb.WriteString(opener)
	for i := 100000; sb.Len() < n; i++ {
		sb.WriteString(strings.ReplaceAll(unit, "\x02", fmt.Sprint(i)))
	}
	return sb.String()
}

var c09SQLDistinct = []string{"c\x02,", "c\x02 ", "\x02,", "'\x02',", "@v\x02,", "[c\x02],", "c\x02.", "c\x02=", "c\x02(", "`c\x02`,", "$c\x02$", "/*\x02*/", "c\x02 or ", "x\x02 union select ", "c\x02;", "\x02 "}
var c09HTMLDistinct = []string{"<a\x02>", " a\x02=1", "&#\x02;", "<a\x02 ", "a\x02 ", "</a\x02>", "<!--\x02-->", "a\x02='x' ", "on\x02=", "&#x\x02", "<a\x02/"}

func init() {
	fw.Register(&fw.Check{
		ID:              "C09",
		PanicOutOfScope: true,
		QuickS:          90,
		ThoroughS:       900,
		Rule: "every repetition family opener + unit^k for every unit over the 47 SQL / 33 HTML state-changing symbols and keyword/markup atoms of length <=2 (quick) / <=3 (thorough) x 10 (SQL) / 14 (HTML) openers, at 4 KB, 16 KB and 64 KB, through the auto-instrumented build: " +
			"deterministic work(64K) <= 6*work(16K) <= 36*work(4K) (linear = 4, quadratic = 16) and work <= 2000*|s| + 1e5 (enforced as a budget, so a blow-up stops early); wall-clock is recorded, never judged; every family is one state with three transitions",
		Assumptions: []string{
			"cost model: loop-body entries + function entries + bytes passed to strings/bytes functions + concatenation/conversion sizes; cost hidden inside == on long strings or inside strings.Builder methods is not charged",
			"the instrumented sources are generated from /repo's current working tree at check time (vinstr), nothing is committed to /repo",
		},
		Phases: []fw.Phase{
			{Name: "sql-families", Space: "10 openers x units over 47 SQL symbols/atoms ^<=2 (quick) / <=3 (thorough) x {4K,16K,64K}", Share: 1,
				Run: func(w *fw.W) {
					units := alpha.Units(c09SQLSyms, w.Pick(2, 3))
					w.Each(len(units)*len(c09SQLOpeners), func(i int) {
						w.Item(units[i/len(c09SQLOpeners)], "sql|"+c09SQLOpeners[i%len(c09SQLOpeners)])
					})
				}, Eval: evalC09},
			{Name: "html-families-with-tail", Space: "14 openers x units over 33 HTML symbols ^<=1 (quick) / <=2 (thorough) x 5 tails (half of the length is the repeated unit, half a run of blanks / NULs / letters, or one closing '>')", Share: 1,
				Run: func(w *fw.W) {
					units := alpha.Units(c09HTMLSyms, w.Pick(1, 2))
					var items [][2]string
					for _, u := range units {
						for _, o := range c09HTMLOpeners {
							for _, t := range c09Tails[1:] {
								items = append(items, [2]string{u, "html|" + o + "\x01" + t})
							}
						}
					}
					w.Each(len(items), func(i int) { w.Item(items[i][0], items[i][1]) })
				}, Eval: evalC09},
			{Name: "html-tag-families-2", Space: "openers `<a `, `</a `, `</a x=`, `<a x=` x units over 33 HTML symbols ^2 x closing '>' (attribute runs inside a start / end tag that is closed only at the very end)", Share: 1,
				Run: func(w *fw.W) {
					units := alpha.Units(c09HTMLSyms, 2)
					var items [][2]string
					for _, u := range units {
						if len(u) < 2 {
							continue
						}
						for _, o := range []string{"<a ", "</a ", "</a x=", "<a x="} {
							items = append(items, [2]string{u, "html|" + o + "\x01>"})
						}
					}
					w.Each(len(items), func(i int) { w.Item(items[i][0], items[i][1]) })
				}, Eval: evalC09},
			{Name: "sql-families-with-tail", Space: "10 openers x units over 47 SQL symbols ^<=1 (quick) / <=2 (thorough) x 5 tails", Share: 1,
				Run: func(w *fw.W) {
					units := alpha.Units(c09SQLSyms, w.Pick(1, 2))
					var items [][2]string
					for _, u := range units {
						for _, o := range c09SQLOpeners {
							for _, t := range c09Tails[1:] {
								items = append(items, [2]string{u, "sql|" + o + "\x01" + t})
							}
						}
					}
					w.Each(len(items), func(i int) { w.Item(items[i][0], items[i][1]) })
				}, Eval: evalC09},
			{Name: "distinct-token-families", Space: "16 SQL / 11 HTML item templates with a running counter (every token of the input different: words, numbers, strings, variables, tags, attributes, references) x all openers x {4K,16K,64K}", Share: 1,
				Run: func(w *fw.W) {
					var items [][2]string
					for _, u := range c09SQLDistinct {
						for _, o := range c09SQLOpeners {
							items = append(items, [2]string{u, "sql|" + o})
						}
					}
					for _, u := range c09HTMLDistinct {
						for _, o := range c09HTMLOpeners {
							items = append(items, [2]string{u, "html|" + o})
						}
					}
					w.Each(len(items), func(i int) { w.Item(items[i][0], items[i][1]) })
				}, Eval: evalC09},
			{Name: "html-tag-attribute-units", Space: "units = tag opener x attribute form (4 x 12: a complete tag start with one attribute, repeated with nothing in between) and attribute-list units with every ASCII punctuation byte as separator inside a URL / plain value, x 6 openers x {4K,16K,64K}", Share: 1,
				Run: func(w *fw.W) {
					var items [][2]string
					tags := []string{"<a ", "<a/", "<a\t", "</a "}
					attrs := []string{"x=", "x=y", "x", "x='", "href=", "href=x", "x=<", "x=y ", "x=y>", "x='y'", "on=", "style="}
					for _, t := range tags {
						for _, a := range attrs {
							for _, o := range []string{"", "<a ", "<a b=", "<a href=", "</a ", "<!--"} {
								items = append(items, [2]string{t + a, "html|" + o})
							}
						}
					}
					for b := 0x21; b < 0x7f; b++ {
						c := string([]byte{byte(b)})
						if (b >= '0' && b <= '9') || (b >= 'a' && b <= 'z') || (b >= 'A' && b <= 'Z') {
							continue
						}
						for _, o := range []string{"<a href=", "<a href=\"", "<a x=", "<a style='", "", "<a "} {
							items = append(items, [2]string{"a" + c, "html|" + o})
						}
						for _, o := range []string{"", "'", "1 ", "1 union select "} {
							items = append(items, [2]string{"a" + c, "sql|" + o})
						}
					}
					w.Each(len(items), func(i int) { w.Item(items[i][0], items[i][1]) })
				}, Eval: evalC09},
			{Name: "complete-construct-units", Space: "units that are complete constructs (opener + body + EACH alternative terminator: comments closed by --> / --!> / -!>, CDATA, <% %>, <? >, <! >, complete tags with quoted and unquoted values; SQL: opener-token x middle x closer over 11 x 5 x 8 forms) repeated to {4K,16K,64K}: a scanner that probes for the wrong terminator from every construct re-reads the rest", Share: 1,
				Run: func(w *fw.W) {
					var items [][2]string
					html := []string{"<!--a-->", "<!--a--!>", "<!--a-!>", "<!--a-\x00->", "<!---->", "<!-->", "<![CDATA[a]]>", "<![CDATA[]]]>", "<%a%>", "<%%>%>", "<?a>", "<?a?>", "<!a>", "<!doctype a>",
						"<a b='c'>", "<a b=\"c\">", "<a b=`c`>", "<a b=c>", "<a b>", "</a>", "</a b=c>", "<a/>", "<a b=c/>", "&#1;", "&#x1;", "<a b='c' d=e>"}
					for _, u := range html {
						for _, o := range []string{"", "<a ", "<a b='", "<!--", "<a href="} {
							items = append(items, [2]string{u, "html|" + o})
						}
						for _, end := range []string{"-->", "]]>", "%>", "'>", "\">"} {
							items = append(items, [2]string{u, "html|\x01\x03" + end})
						}
					}
					for _, op := range []string{"{a ", "(", "[", "'", "\"", "`", "/*", "--", "#", "@", "$a$"} {
						for _, mid := range []string{"1", "a", "1,", "a 1,", " "} {
							for _, cl := range []string{"", "}", ")", "]", "'", "*/", "\n", ","} {
								for _, o := range []string{"", "1 "} {
									items = append(items, [2]string{op + mid + cl, "sql|" + o})
								}
								// the same run closed once, at the very end, by each closer (a rule that looks ahead for the closer)
								for _, end := range []string{"1}", ")", "]", "'", "*/"} {
									items = append(items, [2]string{op + mid + cl, "sql|\x01\x03" + end})
								}
							}
						}
					}
					w.Each(len(items), func(i int) { w.Item(items[i][0], items[i][1]) })
				}, Eval: evalC09},
			{Name: "new-literal-families", Space: "units a, a+x, x+a for every literal a the tree under test has in addition to the pinned tree and every symbol x, x all openers x {4K,16K,64K} (empty on the pinned tree)", Share: 1,
				Run: func(w *fw.W) {
					var items [][2]string
					add := func(atoms, syms, openers []string, side string) {
						for _, a := range atoms {
							units := []string{a}
							for _, x := range syms {
								units = append(units, a+x, x+a)
							}
							for _, u := range units {
								for _, o := range openers {
									items = append(items, [2]string{u, side + o})
								}
							}
						}
					}
					add(uniq(alpha.DeltaSQL(), newByteAtoms()), c09SQLSyms, c09SQLOpeners, "sql|")
					add(uniq(alpha.DeltaHTML(), newByteAtoms()), c09HTMLSyms, c09HTMLOpeners, "html|")
					w.Each(len(items), func(i int) { w.Item(items[i][0], items[i][1]) })
				}, Eval: evalC09},
			{Name: "html-families", Space: "14 openers x units over 33 HTML symbols/atoms ^<=2 (quick) / <=3 (thorough) x {4K,16K,64K}", Share: 1,
				Run: func(w *fw.W) {
					units := alpha.Units(c09HTMLSyms, w.Pick(2, 3))
					w.Each(len(units)*len(c09HTMLOpeners), func(i int) {
						w.Item(units[i/len(c09HTMLOpeners)], "html|"+c09HTMLOpeners[i%len(c09HTMLOpeners)])
					})
				}, Eval: evalC09},
		},
	})
}
