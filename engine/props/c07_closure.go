package props

import (
	"fmt"

	lib "github.com/corazawaf/libinjection-go"

	"verif/alpha"
	"verif/fw"
	"verif/refhtml"
)

// Closure of the HTML tokenizer / classifier automaton (explicit-state, unbounded input length).
// A state is the MODEL's control state when the input runs out: (start context, scanning state,
// end-tag flag, pending quote, "left offset 0", class of the attribute name waiting for a value).
// A transition appends one symbol of the byte + fragment alphabets. Breadth-first from the five
// start contexts until no new state appears. Every transition is validated on the real code from
// the state's shortest representative: token stream and verdict of (representative + symbol) and
// of (representative + symbol + w) for every distinguishing suffix w must equal the model's.
// A state in which the classifier has already fired is absorbing and is not expanded.

var c07Suffixes = []string{"", ">", "<script>", " onerror=x>", "=javascript:x>", "'", "\"", "`", "-->", "]]>", "%>", "/>", " ", "x", "<xss", "</a>", "><xss>", "'><xss>", "\"><xss>", "`><xss>",
	" href=javascript:x", "=x", "<!--", "<%", "\x00"}

func c07ClosureSyms() []string {
	seen := map[string]bool{}
	var out []string
	for _, l := range [][]string{alpha.H1, alpha.H2} {
		for _, s := range l {
			if !seen[s] {
				seen[s] = true
				out = append(out, s)
			}
		}
	}
	return out
}

func c07CompareCtx(s string, c int) string {
	l := htmlLists()
	impl, capped := lib.VerifH5Tokens(s, c)
	if capped {
		return "tokenizer exceeded len+2 steps"
	}
	ref := refhtml.Tokenize(s, c)
	if d := compareH5(impl, ref); d != "" {
		return fmt.Sprintf("%s | impl: %s | model: %s", d, fmtImplToks(impl), fmtRefToks(ref))
	}
	if iv, rv := lib.VerifXSSContext(s, c), l.IsXSS(s, c); iv != rv {
		return fmt.Sprintf("verdict impl=%v model=%v | tokens: %s", iv, rv, fmtRefToks(ref))
	}
	return ""
}

func evalC07Closure(w *fw.W, s, aux string) {
	var c int
	fmt.Sscanf(aux, "%d", &c)
	if d := c07CompareCtx(s, c); d != "" {
		w.Fail("automaton-closure", "ctx "+htmlCtxName[c]+": "+d)
	}
	w.Traces(1)
}

func runHTMLClosure(w *fw.W) {
	htmlClosure(w, c07Suffixes, func(in string, ctx int) { w.Item(in, fmt.Sprint(ctx)) })
}

// htmlClosure walks the model automaton breadth-first and hands every (representative + symbol +
// suffix) input to visit, together with the start context it was reached from.
func htmlClosure(w *fw.W, suffixes []string, visit func(in string, ctx int)) {
	l := htmlLists()
	syms := c07ClosureSyms()
	type node struct {
		rep string
		ctx int
	}
	keyOf := func(s string, c int) (string, bool) {
		fired, pending := l.EndState(s, c)
		return fmt.Sprintf("%d|%s|%d", c, refhtml.EndKey(s, c), pending), fired
	}
	seen := map[string]bool{}
	var frontier []node
	for _, c := range htmlCtx {
		k, _ := keyOf("", c)
		seen[k] = true
		frontier = append(frontier, node{"", c})
	}
	depth, transitions, absorbing := 0, 0, 0
	closed := true
	for len(frontier) > 0 {
		if w.Expired() {
			closed = false
			break
		}
		depth++
		var next []node
		for _, nd := range frontier {
			for _, a := range syms {
				in := nd.rep + a
				transitions++
				for _, suf := range suffixes {
					visit(in+suf, nd.ctx)
				}
				k, fired := keyOf(in, nd.ctx)
				if fired {
					absorbing++
					continue
				}
				if !seen[k] {
					seen[k] = true
					next = append(next, node{in, nd.ctx})
				}
			}
		}
		frontier = next
	}
	w.Extra("closure_states", int64(len(seen)))
	w.Extra("closure_transitions", int64(transitions))
	w.Extra("closure_absorbing_transitions", int64(absorbing))
	w.ExtraMax("max_closure_depth", int64(depth))
	if closed {
		w.Extra("closures_reaching_fixpoint", 1)
		w.Note(fmt.Sprintf("fixpoint after %d levels: %d automaton states, %d transitions x %d distinguishing suffixes validated on the implementation; covers inputs of every length over the %d-symbol alphabet", depth, len(seen), transitions, len(suffixes), len(syms)))
	} else {
		w.Note(fmt.Sprintf("closure NOT reached within the budget: %d states to depth %d", len(seen), depth))
		w.MarkIncomplete()
	}
	if w.WantSample() {
		w.Sample(map[string]any{"automaton_states": len(seen), "transitions": transitions, "levels": depth, "closed": closed})
	}
}

func init() {
	c := fw.Lookup("C07")
	c.Phases = append(c.Phases, fw.Phase{Name: "automaton-closure", Serial: true, Share: 4,
		Space: "breadth-first closure of the tokenizer/classifier automaton (model control state at end of input) from the five start contexts over the union of the byte and fragment alphabets; every transition x 25 distinguishing suffixes validated on the implementation; fixpoint = inputs of every length",
		Run: func(w *fw.W) {
			runHTMLClosure(w)
			if w.Expired() {
				w.MarkIncomplete()
			} else {
				w.Finish()
			}
		}, Eval: evalC07Closure})
}
