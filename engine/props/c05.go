package props

import (
	"encoding/hex"
	"fmt"
	"os"
	"os/exec"
	"sort"
	"strings"
	"time"

	lib "github.com/corazawaf/libinjection-go"

	"verif/alpha"
	"verif/fw"
	"verif/refhtml"
	"verif/vrt"
)

// C05 — both detectors are thread-safe and pure.
//
//	E-HIST : explicit-state closure over call histories. State = digest of everything reachable
//	         from the package-level variables (and the pool shims); transition = one call; every
//	         transition's result is compared with the fresh-process reference.
//	E-SCHED: stateless exploration of thread interleavings under the cooperative scheduler of the
//	         auto-instrumented build, iterative preemption bounding, with a happens-before race
//	         monitor over package-level variable accesses and pooled objects.

var c05SQL = []string{"", "1", "foo", "1 union select 1", "1' or '1'='1", "1 union all select 1", "select 1", "x' or 1=1 --", "1; drop table t",
	"/*!*/", "`if`", "@@version", "1 and 1=1", "a not in (1)", "1 -- x", "1#\n2", "\"a\" or \"b\"", "'", "1 union/**/select 2", "rock' and roll",
	"foo\" and bar", "1 group by 2", "1 or sleep(5)",
	// pairs with the same fingerprint and token count but different whitelist verdicts (a memo keyed too coarsely confuses them)
	"it' left join 'us", "x' into outfile '/tmp/x", "1 union", "2 union /*x*/", "foo --", "foo /*x*/", "1 --", "1 -- x", "1/*x*/", "1 #", "a' + 'b", "'a' + 'b'",
	"sexy and 17", "sexy and 17<18", "1 and 1", "1 and 1=1", "x' and 'y", "x' and y", "1; if 1", "1; iF 1",
	// one input per lexical construct (a shared scratch buffer in any lexer needs that lexer to run)
	"q'(a)' or 1=1", "q'[b]' or 1=1", "$tag$ x $tag$ or 1", "$$y$$ or 1", "1e+5 or 0x1f", "@@version, @`v`, @'v'", "u&'x' n'y' e'z' x'00' b'01'", "[a].[b] or 1", "1 or \\N",
	// both quote kinds, SQLi in both quote readings with different fingerprints (an adaptive "try this reading first" hint changes the answer)
	// words with an inner '.' / back-tick (the keyword-prefix split of the word lexer)
	"1 union select.1", "1 having`x`>0", "sys.stragg.x",
	"' or 1=1 -- \" union select 1 --", "a\" or 1=1 --", "\" or 1=1 -- ' union select 1 --", "a' or 1=1 --", "1 union select password from users where name like 'a%' and 1=1 -- comment comment comment"}

var c05XSS = []string{"", "<script>", "</a", "</a ", "<a href=javascript:alert(1)>", "onerror=x", "' onclick=1", "<!doctype", "<![CDATA[x]]>", "<%x%>",
	"plain text", "</>", "<a/b=c>", "x' ", "\" href=data:x", "<!-- ` -->", "<b", "</script", "<svt>", "x", "<a href=&#106;avascript:x>", "onclick", "x onerror",
	"<script>alert(1)</script>"}

// op encoding: "s:<text>" = IsSQLi, "x:<text>" = IsXSS
var c05Long = []string{"x:<script>alert(1)</script>" + strings.Repeat("a", 70000), "x:" + strings.Repeat("a ", 35000) + "<a href=javascript:x>",
	"s:1 union select 1 -- " + strings.Repeat("a", 70000), "s:" + strings.Repeat("a ", 35000)}

func c05Ops() []string {
	var ops []string
	ops = append(ops, c05Long...)
	for _, s := range c05SQL {
		ops = append(ops, "s:"+s)
	}
	for _, s := range c05XSS {
		ops = append(ops, "x:"+s)
	}
	return ops
}

// c05Extra: operations of the history closure only (not of the pumped / long histories, which grow with the
// square of the operation count):
//   - every special byte class inside valid UTF-8 text and as a raw separator (a table "adjusted for this
//     input" that is really the shared one changes the reading of later inputs);
//   - NUL-carrying inputs of different lengths (a recycled scratch buffer keeps the tail of the previous input);
//   - pairs of inputs of EQUAL length that share their first N bytes and differ in verdict, N around the usual
//     buffer sizes and around every new integer constant of the tree under test (a memo keyed by a prefix or
//     by a truncated key confuses them).
func c05Extra() []string {
	ops := []string{
		"s:voil\xc3\xa0, d\xc3\xa9j\xc3\xa0 vu", "s:1\xa0UNION\xa0SELECT\xa0password\xa0FROM\xa0users", "s:1'\xa0OR\xa0'1'='1", "s:1\x0bor\x0b1=1", "s:\xce\xa0\xcf\x80 caf\xc3\xa9 \xe2\x82\xac",
		"s:1\x00union\x00select\x001", "s:a\x00\x00\x00\x00\x00\x00\x00\x00",
		"x:\x00hello world <script>alert(1)</script>", "x:0123456789" + strings.Repeat("\x00", 24), "x:a" + strings.Repeat("\x00", 8), "x:<a\x00 href=javascript:x>", "x:\x00\x00<a onerror=x>\x00", "x:" + strings.Repeat("\x00", 40),
		"x:caf\xc3\xa9 \xc2\xa0 <b>", "x:\xc2\xa0<script>",
	}
	// inputs that differ ONLY in letter case and differ in verdict (the case-sensitive constructs): a memo that
	// compares case-insensitively confuses them
	ops = append(ops, "s:foo -- sp_password", "s:FOO -- SP_PASSWORD", "s:FOO -- sp_password", "s:1 or \\N", "s:1 or \\n", "s:$a$ or 1=1 $A$ or 1=1", "s:$a$ or 1=1 $a$ or 1=1",
		"s:q'x or 1=1 X' or 1=1", "s:q'X or 1=1 X' or 1=1", "x:<![CDATA[<script>]]>", "x:<![cdata[<script>]]>")
	ns := []int{16, 32, 64, 128, 256, 1024, 4096}
	for _, n := range alpha.NewInts() {
		if n >= 8 && n <= 1<<16 {
			ns = append(ns, n)
		}
	}
	seen := map[int]bool{}
	for _, n := range ns {
		if seen[n] {
			continue
		}
		seen[n] = true
		p := strings.Repeat("quarterly_", n/10+1)[:n]
		ops = append(ops, "s:"+p+" union select login from accounts", "s:"+p+" sheet 4 revision 12 was approved", "s:"+p+"' or '1'='1' -- aaaaaaaaaaaaaaaaa",
			"x:"+p+"<script>alert(1)</script>", "x:"+p+" script alert 1 script xx", "x:"+p+"<a href=javascript:alert(1)>")
	}
	return ops
}

// c05HistOps: the operations of the history closure.
func c05HistOps() []string { return append(c05Ops(), c05Extra()...) }

func runOp(op string) string {
	if op[0] == 's' {
		b, f := lib.IsSQLi(op[2:])
		keepResult(op, f)
		return fmt.Sprintf("%v/%s", b, f)
	}
	return fmt.Sprint(lib.IsXSS(op[2:]))
}

// A returned fingerprint belongs to the caller: later calls must not change it (a string that is a view of a
// recycled buffer reads differently after the buffer's next use). The last few returned strings are kept as
// returned, together with a copy made at return time, and compared after every later call.
type keptResult struct{ op, raw, copy string }

var keptResults []keptResult

func keepResult(op, f string) {
	if f == "" {
		return
	}
	if len(keptResults) >= 8 {
		keptResults = keptResults[1:]
	}
	keptResults = append(keptResults, keptResult{op, f, strings.Clone(f)})
}

// mutatedResult reports a kept result that no longer reads as it did when it was returned.
func mutatedResult() string {
	for _, k := range keptResults {
		if k.raw != k.copy {
			return fmt.Sprintf("the fingerprint %q returned by the earlier call %q now reads %q: a later call wrote into memory the result still refers to", k.copy, k.op, k.raw)
		}
	}
	return ""
}

// C05Oneshot prints the result of one op in this (fresh) process.
func C05Oneshot(hexops string) {
	if strings.HasPrefix(hexops, "@") { // long operations are handed over in a file
		b, err := os.ReadFile(hexops[1:])
		if err != nil {
			fmt.Fprintln(os.Stderr, err)
			os.Exit(3)
		}
		hexops = strings.TrimSpace(string(b))
	}
	for _, h := range strings.Split(hexops, ",") {
		b, _ := hex.DecodeString(h)
		fmt.Println(runOp(string(b)))
	}
}

var c05Ref map[string]string

// mapOrderDiffs: operations whose fresh-process answer differs between the two map iteration orders.
var mapOrderDiffs [][3]string

// freshReference evaluates every op as the FIRST AND ONLY call of a fresh process.
func freshReference(ops []string) (map[string]string, error) {
	self, err := os.Executable()
	if err != nil {
		return nil, err
	}
	ref := map[string]string{}
	tmp, err := os.CreateTemp("", "vcheck-op-")
	if err != nil {
		return nil, err
	}
	defer os.Remove(tmp.Name())
	tmp.Close()
	for _, op := range ops {
		arg := hex.EncodeToString([]byte(op))
		if len(arg) > 4000 {
			if err := os.WriteFile(tmp.Name(), []byte(arg), 0o600); err != nil {
				return nil, err
			}
			arg = "@" + tmp.Name()
		}
		out, err := exec.Command(self, "-oneshot", arg).Output()
		if err != nil {
			return nil, fmt.Errorf("fresh-process reference for %s: %v", short(op), err)
		}
		ref[op] = strings.TrimSpace(string(out))
		// the same call in a fresh process whose map ranges run in the opposite order (Go leaves the order unspecified;
		// the instrumented build owns it): the answer must not depend on it
		cmd := exec.Command(self, "-oneshot", arg)
		cmd.Env = append(os.Environ(), "VRT_MAPORDER=desc")
		out2, err := cmd.Output()
		if err != nil {
			return nil, fmt.Errorf("fresh-process reference (reversed map order) for %s: %v", short(op), err)
		}
		if r2 := strings.TrimSpace(string(out2)); r2 != ref[op] {
			mapOrderDiffs = append(mapOrderDiffs, [3]string{op, ref[op], r2})
		}
	}
	return ref, nil
}

// modelResult: what the reference models say (second, independent opinion).
func modelResult(op string) string {
	if op[0] == 's' {
		b, f := sqlRef().IsSQLi(op[2:])
		return fmt.Sprintf("%v/%s", b, f)
	}
	return fmt.Sprint(htmlLists().IsXSSAny(op[2:]))
}

var _ = refhtml.CtxData

// ---------------------------------------------------------------------------------------------
// E-HIST

var (
	histStates  map[string][]string // state key -> shortest history reaching it
	histLast    string              // state key after the last evaluated transition
	histInitDig map[string]uint64
)

func decodePath(aux string) []string {
	if aux == "" {
		return nil
	}
	var p []string
	for _, h := range strings.Split(aux, ",") {
		b, _ := hex.DecodeString(h)
		p = append(p, string(b))
	}
	return p
}

func encodePath(p []string) string {
	var hs []string
	for _, op := range p {
		hs = append(hs, hex.EncodeToString([]byte(op)))
	}
	return strings.Join(hs, ",")
}

func showPath(p []string) string {
	var q []string
	for _, op := range p {
		q = append(q, fmt.Sprintf("%q", op))
	}
	return "[" + strings.Join(q, ", ") + "]"
}

// evalHist: restore the initial package state, replay the history, apply the op, compare.
func evalHist(w *fw.W, op, aux string) {
	path := decodePath(aux)
	for _, d := range mapOrderDiffs {
		if d[0] == op {
			w.Fail("map-order-dependence", fmt.Sprintf("as the first call of a fresh process the call %q returns %s when map ranges run in ascending key order and %s when they run in descending order: the answer depends on the unspecified iteration order of a map", op, d[1], d[2]))
			return
		}
	}
	vrt.Restore()
	keptResults = nil
	for _, p := range path {
		runOp(p)
	}
	before := vrt.Digest()
	got := runOp(op)
	after := vrt.Digest()
	w.Traces(1)
	if m := mutatedResult(); m != "" {
		w.Fail("result-mutated", fmt.Sprintf("after the call history %s and the call %q: %s", showPath(path), op, m))
		return
	}
	want, okRef := c05Ref[op]
	if !okRef {
		panic("harness: no fresh-process reference for op " + op)
	}
	if got != want {
		w.Fail("history-dependence", fmt.Sprintf("after the call history %s the call %q returns %s; as the first call of a fresh process it returns %s", showPath(path), op, got, want))
	} else if m := modelResult(op); m != got {
		w.Fail("history-dependence", fmt.Sprintf("call %q returns %s, the reference model says %s", op, got, m))
	}
	changed := vrt.DiffDigest(before, after)
	for _, v := range vrt.DiffDigest(histInitDig, after) {
		vrt.RestoreSet[v] = true // state that moved must be put back before the next history
	}
	if len(changed) > 0 {
		w.NonTrivial()
		w.Extra("transitions_changing_package_state", 1)
		if w.WantSample() {
			w.Sample(map[string]any{"history": path, "op": op, "package_variables_changed": changed})
		}
	}
	histLast = vrt.DigestKey()
	w.OutcomeStr(histLast)
}

// byAffinity orders the operations by how likely they are to be confused with op a by a memo, a pool or a
// scratch buffer: same detector first, then equal length, then the longest common prefix.
func byAffinity(ops []string, a string) []string {
	score := func(b string) int {
		if b[0] != a[0] {
			return 0
		}
		sc := 1
		if len(a) == len(b) {
			sc += 100000
		}
		n := 0
		for n < len(a) && n < len(b) && a[n] == b[n] {
			n++
		}
		return sc + n
	}
	out := append([]string{}, ops...)
	sort.SliceStable(out, func(i, j int) bool { return score(out[i]) > score(out[j]) })
	return out
}

func runHist(w *fw.W) {
	ops := c05HistOps()
	vrt.Restore()
	histInitDig = vrt.Digest()
	init := vrt.DigestKey()
	histStates = map[string][]string{init: nil}
	frontier := []string{init}
	maxDepth := w.Pick(3, 4)
	maxStates := w.Pick(400, 4000)
	closed := true
	for depth := 0; len(frontier) > 0; depth++ {
		if depth >= maxDepth {
			closed = false
			break
		}
		var next []string
		// Two passes over the frontier: first, from every state, the few operations most likely to collide with
		// the call that created the state (same detector, equal length, longest common prefix); then all the
		// others. The order only matters when the closure does not complete (state explosion on a changed tree).
		const affine = 6
		for pass := 0; pass < 2; pass++ {
			for _, st := range frontier {
				path := histStates[st]
				sorted := ops
				if len(path) > 0 {
					sorted = byAffinity(ops, path[len(path)-1])
				}
				sub := sorted
				if len(path) > 0 {
					if pass == 0 {
						sub = sorted[:affine]
					} else {
						sub = sorted[affine:]
					}
				} else if pass == 1 {
					continue
				}
				for _, op := range sub {
					if w.ExpiredNow() {
						closed = false
						break
					}
					w.Item(op, encodePath(path))
					if _, seen := histStates[histLast]; !seen {
						if len(histStates) >= maxStates {
							closed = false
							continue
						}
						histStates[histLast] = append(append([]string{}, path...), op)
						next = append(next, histLast)
					}
				}
			}
		}
		frontier = next
	}
	w.Extra("distinct_package_states", int64(len(histStates)))
	if closed {
		w.Extra("closed_fixpoint", 1)
		w.Note(fmt.Sprintf("closure reached: %d package state(s), no new state from any of %d operations: by induction every call history of any length stays inside the explored states", len(histStates), len(ops)))
	} else {
		w.Note(fmt.Sprintf("closure NOT reached (depth or state cap): %d states explored to history depth %d", len(histStates), maxDepth))
	}
	w.Finish()
	vrt.Restore()
}

// long linear histories: the operations cycled for several hundred calls on one process state
// (counters that wrap, tables that fill up, generation numbers that repeat only show after many calls)
func longHistoryOp(k int) string {
	ops := c05Ops()[len(c05Long):] // the short operations
	r := k / len(ops)
	return ops[(k+7*r)%len(ops)]
}

func evalLongHistory(w *fw.W, op, aux string) {
	var upto int
	fmt.Sscanf(aux, "%d", &upto)
	// replay mode re-runs the history from the initial state; in the run itself the state is carried
	if w.Replay || upto == 0 {
		vrt.Restore()
		keptResults = nil
		for k := 0; k < upto; k++ {
			runOp(longHistoryOp(k))
		}
	}
	got := runOp(op)
	w.Traces(1)
	if m := mutatedResult(); m != "" {
		w.Fail("result-mutated", fmt.Sprintf("as call number %d of a linear history: %s", upto+1, m))
		return
	}
	if want := c05Ref[op]; got != want {
		w.Fail("history-dependence", fmt.Sprintf("as call number %d of a linear history (operations cycled in a fixed order) the call %q returns %s; as the first call of a fresh process it returns %s", upto+1, op, got, want))
	}
	w.NonTrivial()
}

// pumped histories A . N^k . B: one operation, then k repetitions of a neutral one, then a probe.
// k sits on the wrap boundaries of 8-bit counters / generation numbers (254..257).
var pumpNeutral = []string{"s:1", "x:x", "s:1 2 3"}
var pumpCounts = []int{254, 255, 256, 257}

func evalPumped(w *fw.W, b, aux string) {
	parts := strings.SplitN(aux, "\x00", 3)
	var k int
	fmt.Sscanf(parts[2], "%d", &k)
	vrt.Restore()
	runOp(parts[0])
	for i := 0; i < k; i++ {
		runOp(parts[1])
	}
	got := runOp(b)
	w.Traces(1)
	want, ok := c05Ref[b]
	if !ok {
		panic("harness: no reference for " + b)
	}
	if got != want {
		w.Fail("history-dependence", fmt.Sprintf("after the history [%q, %q x %d] the call %q returns %s; as the first call of a fresh process it returns %s", parts[0], parts[1], k, b, got, want))
	}
	w.NonTrivial()
}

// ---------------------------------------------------------------------------------------------
// E-SCHED

type schedCfg struct {
	name  string
	cfg   vrt.Config
	bound int
}

func schedConfigs(thorough bool) map[string]schedCfg {
	m := map[string]schedCfg{
		"sync+written-vars/b2": {"sync+written-vars/b2", vrt.Config{AtWrittenVarAccess: true}, 2},
		"all-var-accesses/b2":  {"all-var-accesses/b2", vrt.Config{AtEveryVarAccess: true}, 2},
		"function-entries/b1":  {"function-entries/b1", vrt.Config{AtWrittenVarAccess: true, AtEnter: true}, 1},
		"function-entries/b2":  {"function-entries/b2", vrt.Config{AtWrittenVarAccess: true, AtEnter: true}, 2},
	}
	if thorough {
		m["statement-level/b1"] = schedCfg{"statement-level/b1", vrt.Config{AtEveryVarAccess: true, AtEnter: true, AtLoop: true}, 1}
		m["statement-level/b2"] = schedCfg{"statement-level/b2", vrt.Config{AtEveryVarAccess: true, AtEnter: true, AtLoop: true}, 2}
	}
	return m
}

// a scenario: threads separated by "||", calls of one thread by ";;" (hex-free, ops contain neither)
func parseScenario(s string) [][]string {
	var out [][]string
	for _, th := range strings.Split(s, "||") {
		out = append(out, strings.Split(th, ";;"))
	}
	return out
}

type schedOutcome struct {
	executions, points int
	complete           bool
	violation          string
	kind               string
}

func exploreScenario(w *fw.W, threads [][]string, sc schedCfg, maxExec int) schedOutcome {
	var out schedOutcome
	out.complete = true
	runOnce := func(prefix []int) (*vrt.Execution, []string) {
		vrt.Restore()
		results := make([]string, len(threads))
		bodies := make([]func(), len(threads))
		for i := range threads {
			i := i
			bodies[i] = func() {
				var rs []string
				for _, op := range threads[i] {
					rs = append(rs, runOp(op))
				}
				results[i] = strings.Join(rs, ";;")
			}
		}
		k := 0
		x := vrt.Run(sc.cfg, bodies, func(p *vrt.Point) int {
			c := 0
			if k < len(prefix) {
				c = prefix[k]
			}
			k++
			return c
		})
		return x, results
	}
	judge := func(x *vrt.Execution, results []string) (string, string) {
		if x.Diverged != "" {
			panic("schedule replay diverged: " + x.Diverged)
		}
		for tid, p := range x.Panics {
			first := strings.SplitN(p, "\n", 2)[0]
			return "panic", fmt.Sprintf("thread %d panicked: %s", tid, first)
		}
		if x.Deadlock {
			return "deadlock", "no thread can run but not all have finished"
		}
		if len(x.Races) > 0 {
			return "data-race", x.Races[0].String()
		}
		for i, th := range threads {
			var want []string
			for _, op := range th {
				r, ok := c05Ref[op]
				if !ok {
					panic("harness: no fresh-process reference for op " + op)
				}
				want = append(want, r)
			}
			if results[i] != strings.Join(want, ";;") {
				return "wrong-result", fmt.Sprintf("thread %d calls %s returned %q, sequential fresh-process reference %q", i, showPath(th), results[i], strings.Join(want, ";;"))
			}
		}
		return "", ""
	}
	// a pending branch shares the choice list of the execution it deviates from (materialised when
	// popped): the stack stays O(points), not O(points^2)
	type branch struct {
		base []int
		i    int
		alt  int
	}
	stack := []branch{{nil, 0, -1}}
	started := time.Now()
	wallCap := time.Duration(w.Pick(15, 90)) * time.Second
	for len(stack) > 0 {
		if out.executions >= maxExec || w.ExpiredNow() || time.Since(started) > wallCap {
			out.complete = false
			break
		}
		br := stack[len(stack)-1]
		stack = stack[:len(stack)-1]
		var prefix []int
		if br.alt >= 0 {
			prefix = append(append(make([]int, 0, br.i+1), br.base[:br.i]...), br.alt)
		}
		x, results := runOnce(prefix)
		out.executions++
		out.points += len(x.Points)
		if x.Cut {
			out.complete = false
		}
		if kind, v := judge(x, results); v != "" {
			// replay the recorded schedule: identical observations are required before it is believed
			x2, r2 := runOnce(x.Choices)
			k2, v2 := judge(x2, r2)
			if k2 != kind || v2 != v {
				panic(fmt.Sprintf("schedule is not reproducible: first %q, replay %q", v, v2))
			}
			out.kind = kind
			out.violation = fmt.Sprintf("%s | schedule (choice index per point, %d points): %v | points: %s", v, len(x.Choices), x.Choices, describePoints(x))
			return out
		}
		cost := 0
		for i, p := range x.Points {
			if i >= len(prefix) {
				for alt := len(p.Enabled) - 1; alt >= 1; alt-- {
					c := cost
					if p.RunningStillEnabled {
						c++
					}
					if c > sc.bound {
						continue
					}
					stack = append(stack, branch{x.Choices, i, alt})
				}
			}
			if p.Choice != 0 && p.RunningStillEnabled {
				cost++
			}
		}
	}
	return out
}

func describePoints(x *vrt.Execution) string {
	var b strings.Builder
	n := 0
	for _, p := range x.Points {
		if p.Choice == 0 {
			continue
		}
		if n++; n > 6 {
			b.WriteString("...")
			break
		}
		fmt.Fprintf(&b, "[%s#%d: thread %d -> %d] ", vrt.PointKindName(p.Kind), p.ID, p.Running, p.Enabled[p.Choice])
	}
	return b.String()
}

func evalSched(w *fw.W, scenario, cfgName string) {
	sc, ok := schedConfigs(true)[cfgName]
	if !ok {
		panic("unknown scheduler config " + cfgName)
	}
	threads := parseScenario(scenario)
	res := exploreScenario(w, threads, sc, w.Pick(20000, 400000))
	w.States(res.executions)
	w.Transitions(res.points + res.executions)
	w.Traces(res.executions)
	w.Extra("schedules_executed", int64(res.executions))
	w.ExtraMax("max_schedules_per_scenario", int64(res.executions))
	if !res.complete {
		w.Extra("scenarios_cut_by_cap", 1)
	}
	if res.violation != "" {
		w.Fail(res.kind, fmt.Sprintf("config %s (preemption bound %d): %s", sc.name, sc.bound, res.violation))
		return
	}
	if res.executions > 1 {
		w.NonTrivial()
	}
	w.Outcome(uint64(res.executions))
	if w.WantSample() {
		w.Sample(map[string]any{"scenario_threads": threads, "scheduler_config": sc.name, "preemption_bound": sc.bound, "schedules": res.executions, "scheduling_points": res.points})
	}
}

var c05Collide = []string{"x:<!doctype", "s:q'(a)' or 1=1", "s:q'[b]' or 1=1", "x:onerror=x", "s:1 union select 1", "s:1 union all select 1", "s:x' or 1=1 --", "s:foo\" and bar", "s:1 -- x", "s:",
	"x:<script>", "x:</a", "x:<a href=javascript:alert(1)>", "x:' onclick=1", "x:onclick", "x:<a href=&#106;avascript:x>"}

func init() {
	fw.Register(&fw.Check{
		ID:        "C05",
		QuickS:    90,
		ThoroughS: 900,
		Rule: "E-HIST: breadth-first closure over package states (digest of everything reachable from every package-level variable, incl. pooled objects): from every discovered state every one of 48 operations (24 IsSQLi + 24 IsXSS inputs chosen to collide) is applied on the real code and its result compared with the fresh-process reference and the reference models; " +
			"E-SCHED: every interleaving of 2 (thorough also 3) concurrent calls, for every unordered pair of a 16-input collision set, under the cooperative scheduler of the auto-instrumented build, preemption bound per config, checked for result = sequential reference, happens-before data races on package-level variables, deadlock and panics; " +
			"states = package states (E-HIST) + executed schedules (E-SCHED); non-trivial = a transition that changed package state / a scenario with more than one schedule",
		Assumptions: []string{
			"exploration is sequentially consistent and preemption-bounded (bounds in the phase descriptions); weak-memory reorderings are not modelled",
			"state reachable only through closures or unsafe is outside the digest; writes through an alias of a package-level slice/map are seen by the digest (E-HIST) but not by the race monitor - the free-running `go test -race` pass of bin/check covers those and is auxiliary",
			"scheduling points and access events are inserted by vinstr into /repo's current sources at check time; constructs it cannot own (select, time, rand, map iteration, unsafe) abort the check with exit 2",
		},
		Setup: func(w *fw.W) error {
			if !vrt.Instrumented() {
				return fmt.Errorf("C05 needs the instrumented build")
			}
			sqlRef()
			htmlLists()
			ref, err := freshReference(c05HistOps())
			if err != nil {
				return err
			}
			c05Ref = ref
			vrt.Snapshot()
			for i, n := range vrt.StaticWriteSites {
				if n > 0 {
					vrt.RestoreSet[vrt.VarNames[i]] = true
				}
			}
			// warm-up in every worker: whatever one pass over all operations changes must be restored
			// before each explored execution (small variables are always restored)
			d0 := vrt.Digest()
			for _, op := range c05HistOps() {
				func() {
					defer func() { recover() }()
					runOp(op)
				}()
			}
			for _, v := range vrt.DiffDigest(d0, vrt.Digest()) {
				vrt.RestoreSet[v] = true
			}
			vrt.Restore()
			return nil
		},
		Aux: racePass,
		Phases: []fw.Phase{
			{Name: "history-closure", Space: "BFS over package states x 153 operations (incl. special bytes inside valid UTF-8 and raw, NUL-carrying inputs, equal-length pairs sharing their first N bytes for N around buffer sizes and new constants), history depth <=3 (quick) / <=4 (thorough), state cap 400 / 4000", Share: 6, Serial: true,
				Run: runHist, Eval: evalHist},
			{Name: "long-history", Space: "one linear history of 700 (quick) / 6000 (thorough) calls cycling the 68 short operations in a rotating order; every result compared with the fresh-process reference", Share: 1, Serial: true,
				Run: func(w *fw.W) {
					n := w.Pick(700, 6000)
					for k := 0; k < n && !w.Expired(); k++ {
						w.Item(longHistoryOp(k), fmt.Sprint(k))
					}
					w.Finish()
					vrt.Restore()
				}, Eval: evalLongHistory},
			{Name: "pumped-histories", Space: "histories A . N^k . B for every ordered pair (A,B) of the short operations of the same detector, 3 neutral operations N, k in {254,255,256,257} (8-bit wrap boundaries); quick: k in {255,256} and N = the numeric / plain-text one", Share: 3,
				Run: func(w *fw.W) {
					ops := c05Ops()[len(c05Long):]
					type job struct {
						a, b, n string
						k       int
					}
					var jobs []job
					ks, ns := pumpCounts, pumpNeutral
					if !w.Thorough() {
						ks, ns = []int{255, 256}, pumpNeutral[:2]
					}
					for _, a := range ops {
						for _, b := range ops {
							if a[0] != b[0] || a == b {
								continue
							}
							for _, n := range ns {
								if n[0] != a[0] {
									continue
								}
								for _, k := range ks {
									jobs = append(jobs, job{a, b, n, k})
								}
							}
						}
					}
					w.Each(len(jobs), func(i int) {
						j := jobs[i]
						w.Item(j.b, j.a+"\x00"+j.n+"\x00"+fmt.Sprint(j.k))
					})
					vrt.Restore()
				}, Eval: evalPumped},
			{Name: "schedules-2-threads", LongEval: true, Space: "136 unordered pairs of the 16-input collision set x 4 scheduler configs (thorough: 6): all interleavings within the preemption bound", Share: 5,
				Run: func(w *fw.W) {
					var items [][2]string
					for name := range schedConfigs(w.Thorough()) {
						for i := range c05Collide {
							for j := i; j < len(c05Collide); j++ {
								items = append(items, [2]string{c05Collide[i] + "||" + c05Collide[j], name})
							}
						}
					}
					sortPairs(items)
					w.Each(len(items), func(i int) { w.Item(items[i][0], items[i][1]) })
				}, Eval: evalSched},
			{Name: "schedules-same-input", LongEval: true, Space: "every short operation against itself (two first uses of whatever that input is the first to need: lazily built tables, pools, memo entries), all-var-accesses/b2 and function-entries/b1", Share: 2,
				Run: func(w *fw.W) {
					ops := c05Ops()[len(c05Long):]
					var items [][2]string
					for _, name := range []string{"all-var-accesses/b2", "function-entries/b1"} {
						for _, a := range ops {
							items = append(items, [2]string{a + "||" + a, name})
						}
					}
					w.Each(len(items), func(i int) { w.Item(items[i][0], items[i][1]) })
				}, Eval: evalSched},
			{Name: "schedules-2x2-calls", LongEval: true, Space: "2 threads x 2 calls each over an 8-input subset (history inside a thread + interleaving), sync+written-vars/b2 and function-entries/b1", Share: 2,
				Run: func(w *fw.W) {
					sub := []string{c05Collide[0], c05Collide[1], c05Collide[2], c05Collide[3], c05Collide[4], c05Collide[6], c05Collide[10], c05Collide[11]}
					var items [][2]string
					for _, name := range []string{"sync+written-vars/b2", "function-entries/b1"} {
						for _, a := range sub {
							for _, b := range sub {
								items = append(items, [2]string{a + ";;" + b + "||" + b + ";;" + a, name})
							}
						}
					}
					w.Each(len(items), func(i int) { w.Item(items[i][0], items[i][1]) })
				}, Eval: evalSched},
			{Name: "schedules-3-threads", LongEval: true, Space: "3 threads x 1 call over an 8-input subset, sync+written-vars/b2 and function-entries/b1", Share: 3, ThoroughOnly: true,
				Run: func(w *fw.W) {
					sub := []string{c05Collide[0], c05Collide[1], c05Collide[2], c05Collide[3], c05Collide[4], c05Collide[6], c05Collide[10], c05Collide[11]}
					var items [][2]string
					for _, name := range []string{"sync+written-vars/b2", "function-entries/b1"} {
						for i := range sub {
							for j := i; j < len(sub); j++ {
								for k := j; k < len(sub); k++ {
									items = append(items, [2]string{sub[i] + "||" + sub[j] + "||" + sub[k], name})
								}
							}
						}
					}
					w.Each(len(items), func(i int) { w.Item(items[i][0], items[i][1]) })
				}, Eval: evalSched},
		},
	})
}

func sortPairs(items [][2]string) {
	// deterministic order independent of map iteration
	for i := 1; i < len(items); i++ {
		for j := i; j > 0 && (items[j][1] < items[j-1][1] || (items[j][1] == items[j-1][1] && items[j][0] < items[j-1][0])); j-- {
			items[j], items[j-1] = items[j-1], items[j]
		}
	}
}

// racePass runs the uninstrumented free-running pass under Go's race detector (auxiliary).
func racePass(tier string) ([]fw.Violation, map[string]any) {
	args := []string{"test"}
	if mf := os.Getenv("VERIF_MODFILE"); mf != "" {
		args = append(args, "-modfile", mf)
	}
	args = append(args, "-race", "-count=1", "-tags", "verif", "./racepass")
	cmd := exec.Command("go", args...)
	cmd.Dir = fw.Root() + "/engine"
	if st, err := os.Stat(cmd.Dir); err != nil || !st.IsDir() {
		cmd.Dir = "/verif/engine"
	}
	out, err := cmd.CombinedOutput()
	text := string(out)
	cov := map[string]any{"free_running_race_pass": map[string]any{"cmd": "go " + strings.Join(args, " "), "goroutines": 16, "rounds": 40,
		"note": "auxiliary: a race-detector report is a genuine race; silence proves nothing", "clean": err == nil}}
	if err == nil {
		return nil, cov
	}
	if strings.Contains(text, "WARNING: DATA RACE") || strings.Contains(text, "RESULT-MISMATCH") || strings.Contains(text, "concurrent map") {
		lines := strings.Split(text, "\n")
		if len(lines) > 40 {
			lines = lines[:40]
		}
		return []fw.Violation{{Property: "C05", Phase: "free-running-race-pass", Kind: "race-detector", InputHex: "", InputStr: "16 goroutines over the C05 input set",
			Detail: strings.Join(lines, " | ")}}, cov
	}
	// build failure or other problem of the auxiliary pass: not a verdict
	cov["free_running_race_pass"] = map[string]any{"error": "auxiliary pass did not run: " + firstLines(text, 5)}
	return nil, cov
}

func firstLines(s string, n int) string {
	l := strings.Split(s, "\n")
	if len(l) > n {
		l = l[:n]
	}
	return strings.Join(l, " | ")
}
