package props

import (
	"fmt"
	"strings"

	lib "github.com/corazawaf/libinjection-go"

	"verif/alpha"
	"verif/fw"
)

// C10 — SQLi detection is insensitive to ASCII letter case (outside the four exempt positions).

// caseLocks marks letters whose case SQL itself distinguishes. The rule is purely syntactic and
// deliberately an over-approximation (locking too much only costs coverage):
//   - the letter right after a backslash (MySQL \N),
//   - letters of a run enclosed by '$' on both sides (dollar-quote tags),
//   - the byte right after q' / Q' and every letter equal to it (ignoring case) that is directly
//     followed by a quote (Oracle q-quote delimiters),
//   - every letter of a case-variant occurrence of "sp_password".
//
// The lock set depends only on the case-folded text, so it is the same for every variant.
func caseLocks(s string) []bool {
	n := len(s)
	lock := make([]bool, n)
	low := asciiLower(s)
	for i := 0; i+1 < n; i++ {
		if s[i] == '\\' && isLetter(s[i+1]) {
			lock[i+1] = true
		}
	}
	for i := 0; i < n; i++ {
		if s[i] != '$' {
			continue
		}
		j := i + 1
		for j < n && isLetter(s[j]) {
			j++
		}
		if j < n && j > i+1 && s[j] == '$' {
			for k := i + 1; k < j; k++ {
				lock[k] = true
			}
		}
	}
	for i := 0; i+2 < n; i++ {
		if low[i] == 'q' && s[i+1] == '\'' && isLetter(s[i+2]) {
			d := low[i+2]
			lock[i+2] = true
			for k := 0; k+1 < n; k++ {
				if low[k] == d && s[k+1] == '\'' {
					lock[k] = true
				}
			}
		}
	}
	for from := 0; ; {
		i := strings.Index(low[from:], "sp_password")
		if i < 0 {
			break
		}
		for k := from + i; k < from+i+len("sp_password"); k++ {
			lock[k] = true
		}
		from += i + 1
	}
	return lock
}

func evalC10(w *fw.W, s, _ string) {
	lock := caseLocks(s)
	free := 0
	for i := 0; i < len(s); i++ {
		if isLetter(s[i]) && !lock[i] {
			free++
			if s[i] < 'a' {
				return // explored from the representative whose free letters are all lower case
			}
		}
	}
	if free == 0 {
		return
	}
	b, f := lib.IsSQLi(s)
	n, all := caseVariants(s, lock, 8, func(v string) bool {
		vb, vf := lib.IsSQLi(v)
		if vb != b || vf != f {
			w.Fail("case", fmt.Sprintf("IsSQLi(%q)=(%v,%q) but IsSQLi(%q)=(%v,%q)", s, b, f, v, vb, vf))
			return false
		}
		return true
	})
	w.Traces(n)
	w.NonTrivial()
	if all {
		w.Extra("bases_with_all_2k_assignments", 1)
	} else {
		w.Extra("bases_with_le2_flips", 1)
	}
	w.OutcomeStr(f)
}

// S1 letters plus the letters the number / string-prefix lexers look at
var c10Bytes = []string{"1", "a", " ", "'", "\"", "`", "\\", "/", "*", "-", "#", "$", "@", ".", ",", ";", "(", ")", "=", "+",
	"0", "e", "E", "n", "N", "q", "Q", "u", "U", "x", "X", "b", "B", "d", "D", "f", "F", "&", "\n"}

func init() {
	var cuts []string
	var gram []string
	fw.Register(&fw.Check{
		ID:        "C10",
		QuickS:    75,
		ThoroughS: 720,
		Rule: "base strings over the SQL byte / fragment / token-class alphabets up to the completed level, the lower-case C03 grammar and fixture prefixes <= 48 bytes whose free (non-exempt) letters are all lower case: ALL 2^k case re-assignments of the free letters when k<=8, " +
			"else lower/UPPER plus every single and double flip from each; IsSQLi verdict and fingerprint must not change. Exempt positions are locked by a syntactic over-approximation (letter after backslash, $letters$ runs, q-quote delimiter letters, sp_password). " +
			"traces = variants compared; non-trivial = base with at least one free letter",
		Assumptions: []string{"case deviations beyond 2 flips on bases with more than 8 free letters are not enumerated (bound in the extra counters)"},
		Setup: func(w *fw.W) error {
			seen := map[string]bool{}
			for _, c := range alpha.Cuts(fixtures(), "'\"`", 48) {
				c = asciiLower(c)
				if !seen[c] {
					seen[c] = true
					cuts = append(cuts, c)
				}
			}
			gram = c03Strings(true)
			return nil
		},
		Phases: []fw.Phase{
			{Name: "trie-bytes", Space: "39 SQL bytes incl. both cases of b d e f n q u x ^<=4 (quick) / <=5 (thorough)", Share: 4,
				Run: func(w *fw.W) { w.Trie(c10Bytes, 1, w.Pick(4, 5)) }, Eval: evalC10},
			{Name: "trie-S2-fragments", Space: "S2^<=3 (quick) / <=4 (thorough)", Share: 3,
				Run: func(w *fw.W) { w.Trie(alpha.S2, 1, w.Pick(3, 4)) }, Eval: evalC10},
			{Name: "trie-S3-tokens", Space: "S3^<=3 (quick) / <=4 (thorough)", Share: 3,
				Run: func(w *fw.W) { w.Trie(alpha.S3, 1, w.Pick(3, 4)) }, Eval: evalC10},
			{Name: "grammar", Space: "every lower-case member of the C03 attack grammar (sub-sampled by construction: one separator/tail per payload in quick, all in thorough)", Share: 3,
				Run: func(w *fw.W) { w.Each(len(gram), func(i int) { w.Item(gram[i], "") }) }, Eval: evalC10},
			{Name: "literal-word-templates", Space: "14 statement templates x 34 literal words / prefix forms the lexer and folder compare case-insensitively (USER ... LOCALTIMESTAMP, IN, LIKE, NOT, INTO, IF, u&' n' e' x' b' 0x 0b 1e d-suffix q' nq')", Share: 2,
				Run: func(w *fw.W) {
					var items []string
					for _, t := range c10Templates {
						for _, wd := range c10Words {
							items = append(items, strings.ReplaceAll(t, "W", wd))
						}
					}
					w.Each(len(items), func(i int) { w.Item(items[i], "") })
				}, Eval: evalC10},
			{Name: "corpus-prefixes", Space: "lower-cased fixture cuts <= 48 bytes", Share: 2,
				Run: func(w *fw.W) { w.Each(len(cuts), func(i int) { w.Item(cuts[i], "") }) }, Eval: evalC10},
		},
	})
}

func init() {
	c := fw.Lookup("C10")
	c.Phases = append(c.Phases, sqlExtraPhases(evalC10, false)...)
	// every base costs up to a few hundred case variants here: keep the two largest families lighter
	for i := range c.Phases {
		switch c.Phases[i].Name {
		case "count-sweep":
			c.Phases[i].ThoroughOnly = true
		case "trie-rewritten-words":
			c.Phases[i].Space = "{1 ) ( not in like = + foo select}^<=5 (quick) / <=6 (thorough) x case assignments"
			c.Phases[i].Run = func(w *fw.W) {
				w.Trie([]string{"1 ", ") ", "( ", "not ", "in ", "like ", "= ", "+ ", "foo ", "select "}, 4, w.Pick(5, 6))
			}
		}
	}
}

var c10Templates = []string{"1 or W()", "1 or W(1)", "1; W(1)", "1; W 1=1", "1 union select W()", "@W(1)", "1 W 1", "1 W (1)", "1 or 1 W (1)", "select W from x", "1 W outfile 'x'", "x' W outfile 'y", "1 or W", "1 or W=1 --", "1 and @W()=1", "1 union select @W()", "1 union W 1", "1 union all W\xff 1"}
var c10Words = []string{"user", "user_id", "user_name", "database", "password", "current_user", "current_date", "current_time", "current_timestamp", "localtime", "localtimestamp",
	"in", "not in", "like", "not like", "not", "into", "if", "u&'s'", "n's'", "e's'", "x'1f'", "b'01'", "0x1f", "0b01", "1e5", "1.5d", "1f", "q'(s)'", "nq'[s]'", "sleep", "union", "collate a_b", "x'1f", "select.\xff", "select`\xff", "select.\u0131", "select.a"}
