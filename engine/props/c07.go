package props

import (
	"fmt"
	"strings"

	lib "github.com/corazawaf/libinjection-go"

	"verif/alpha"
	"verif/fw"
	"verif/refhtml"
)

// C07 — HTML5 tokenizer and XSS classifier conform to the reference model.

func evalC07(w *fw.W, s, _ string) {
	l := htmlLists()
	anyV := false
	sig := make([]byte, 0, 32)
	for _, c := range htmlCtx {
		impl, capped := lib.VerifH5Tokens(s, c)
		if capped {
			w.Fail("no-progress", "ctx "+htmlCtxName[c]+": tokenizer exceeded len+2 steps")
			return
		}
		ref := refhtml.Tokenize(s, c)
		if d := compareH5(impl, ref); d != "" {
			w.Fail("tokens", fmt.Sprintf("ctx %s: %s | impl: %s | model: %s", htmlCtxName[c], d, fmtImplToks(impl), fmtRefToks(ref)))
			return
		}
		iv := lib.VerifXSSContext(s, c)
		rv := l.IsXSS(s, c)
		if iv != rv {
			w.Fail("verdict", fmt.Sprintf("ctx %s: impl=%v model=%v | tokens: %s", htmlCtxName[c], iv, rv, fmtRefToks(ref)))
			return
		}
		anyV = anyV || rv
		for _, t := range ref {
			sig = append(sig, byte('a'+t.Type))
		}
		if rv {
			sig = append(sig, '!')
		}
		sig = append(sig, '|')
		w.Traces(1)
	}
	if pub := lib.IsXSS(s); pub != anyV {
		w.Fail("public-or", fmt.Sprintf("IsXSS=%v but OR over the five model contexts=%v", pub, anyV))
		return
	}
	w.OutcomeStr(string(sig))
	if len(sig) > 5+1 { // more than one token over the five contexts
		w.NonTrivial()
	}
	if w.WantSample() && anyV && len(s) > 3 {
		w.Sample(map[string]any{"input": s, "model_tokens_data_ctx": fmtRefToks(refhtml.Tokenize(s, 0)), "xss": anyV})
	}
}

// predicate conformance: tag / attribute / URL classification on name families
func evalC07Pred(w *fw.W, s, kind string) {
	l := htmlLists()
	switch kind {
	case "tag":
		if a, b := lib.VerifBlackTag(s), l.BlackTag(s); a != b {
			w.Fail("blacktag", fmt.Sprintf("impl=%v model=%v", a, b))
		} else if a {
			w.NonTrivial()
		}
	case "attr":
		if a, b := lib.VerifBlackAttr(s), l.BlackAttr(s); a != b {
			w.Fail("blackattr", fmt.Sprintf("impl=%d model=%d", a, b))
		} else if a != 0 {
			w.NonTrivial()
		}
		w.Outcome(uint64(l.BlackAttr(s)))
	case "url":
		if a, b := lib.VerifBlackURL(s), refhtml.BlackURL(s); a != b {
			w.Fail("blackurl", fmt.Sprintf("impl=%v model=%v", a, b))
		} else if a {
			w.NonTrivial()
		}
	}
	w.Traces(1)
}

// nameVariants: the name in lower/upper/alternating case, with one NUL at every position,
// truncated by one byte, extended by one byte.
func nameVariants(n string) []string {
	lo, up := strings.ToLower(n), strings.ToUpper(n)
	alt := []byte(lo)
	for i := range alt {
		if i%2 == 0 && alt[i] >= 'a' && alt[i] <= 'z' {
			alt[i] -= 0x20
		}
	}
	out := []string{lo, up, string(alt)}
	for i := 0; i <= len(lo); i++ {
		out = append(out, lo[:i]+"\x00"+lo[i:])
	}
	if len(lo) > 0 {
		out = append(out, lo[:len(lo)-1], lo[1:])
	}
	out = append(out, lo+"x", "x"+lo, lo+" ")
	// runes that Unicode case folding maps onto / away from ASCII letters (U+0131, U+017F, U+212A)
	for _, r := range [][2]string{{"i", "\u0131"}, {"s", "\u017f"}, {"k", "\u212a"}, {"I", "\u0130"}} {
		if strings.Contains(lo, r[0]) {
			out = append(out, strings.Replace(lo, r[0], r[1], 1), strings.Replace(up, strings.ToUpper(r[0]), r[1], 1))
		}
	}
	return out
}

var urlAlpha = []string{"j", "a", "v", "J", "d", "t", ":", " ", "\x00", "\n", "\x01", "\x7f", "\xc2\xa0", "&#106;", "&#x6a", "&#74", "&#0;", "&#x0a;", "&", "#", "data", "java", "vbscript", "view-source",
	"&#362;", "&#x16a;", "&#x14a;", "b", "s"} // references >= 256 whose low byte is a letter of a scheme (lower / upper case)

func init() {
	var cuts []string
	var names [][2]string
	fw.Register(&fw.Check{
		ID:        "C07",
		QuickS:    60,
		ThoroughS: 720,
		Rule: "every string over the HTML byte/fragment alphabets up to the completed level and every fixture cut, in all five start contexts: " +
			"one model trace (token type/offset/length stream + verdict) per (input, context) is compared field by field with the implementation; " +
			"non-trivial = more than one token overall; distinct_outcomes = distinct (token-type streams, verdicts) vectors",
		Assumptions: []string{
			"the reference model refhtml was written from the libinjection algorithm description, independently of the port; deliberate port-level behaviours it mirrors are listed in DESIGN.md section 6",
			"the model uses the project's own black lists (read through the hooks), so list additions never alarm",
		},
		Setup: func(w *fw.W) error {
			htmlLists()
			cuts = alpha.Cuts(fixtures(), "'\"`", 4096)
			for _, t := range hTags {
				for _, v := range nameVariants(t) {
					names = append(names, [2]string{v, "tag"})
				}
			}
			for _, t := range []string{"svg", "svt", "xsl", "xslt", "a", "ab", "abc", "div", "scrip", "scriptx", ""} {
				for _, v := range nameVariants(t) {
					names = append(names, [2]string{v, "tag"})
				}
			}
			for _, a := range hAttrs {
				for _, v := range nameVariants(a.Name) {
					names = append(names, [2]string{v, "attr"})
				}
			}
			for _, e := range hEvents {
				for _, v := range nameVariants("on" + e.Name) {
					names = append(names, [2]string{v, "attr"})
				}
				names = append(names, [2]string{e.Name, "attr"})
			}
			for _, a := range []string{"xmlns", "xlink", "xmlnsx", "xmlns:a", "xlink:href", "on", "onx", "onfoobar", "o", "", "class", "id", "ona", "onab", "onabc"} {
				for _, v := range nameVariants(a) {
					names = append(names, [2]string{v, "attr"})
				}
			}
			return nil
		},
		Phases: []fw.Phase{
			{Name: "trie-H1-bytes", Space: "H1^<=4 (quick) / <=5 (thorough) x 5 contexts", Share: 4,
				Run: func(w *fw.W) { w.Trie(alpha.H1, 0, w.Pick(4, 5)) }, Eval: evalC07},
			{Name: "trie-H1core-deep", Space: "H1core^5 (quick) / ^5..7 (thorough) x 5 contexts", Share: 4,
				Run: func(w *fw.W) { w.Trie(alpha.H1core, 5, w.Pick(5, 7)) }, Eval: evalC07},
			{Name: "trie-H2-fragments", Space: "H2^<=4 (quick) / <=5 (thorough) x 5 contexts", Share: 3,
				Run: func(w *fw.W) { w.Trie(alpha.H2, 1, w.Pick(4, 5)) }, Eval: evalC07},
			{Name: "corpus-cuts", Space: "every prefix, suffix and prefix+quote of every repository fixture x 5 contexts", Share: 1,
				Run: func(w *fw.W) { w.Each(len(cuts), func(i int) { w.Item(cuts[i], "") }) }, Eval: evalC07},
			{Name: "name-predicates", Space: "every list entry and near-miss x {lower, upper, alternating, NUL at every position, truncated, extended}", Share: 1,
				Run: func(w *fw.W) { w.Each(len(names), func(i int) { w.Item(names[i][0], names[i][1]) }) }, Eval: evalC07Pred},
			{Name: "url-predicate", Space: "urlAlpha^<=4 (quick) / <=5 (thorough): scheme letters, references, junk bytes", Share: 1,
				Run:  func(w *fw.W) { w.Trie(urlAlpha, 1, w.Pick(4, 5)) },
				Eval: func(w *fw.W, s, _ string) { evalC07Pred(w, s, "url") }},
			{Name: "url-long-references", Space: "URL values that start with / contain a reference whose digit run has 0..46 digits (first digit, 0^k or F^k / 9^k for k in 0..40, chosen last digits) followed by the rest of a scheme: the URL predicate of model and implementation", Share: 1,
				Run: func(w *fw.W) {
					refs := longDigitRefs()
					w.Each(len(refs), func(i int) {
						w.Item(refs[i]+"avascript:x", "")
						w.Item("d"+refs[i]+"ata:x", "")
					})
				},
				Eval: func(w *fw.W, s, _ string) { evalC07Pred(w, s, "url") }},
			{Name: "url-long-values", Space: "URL values = unit^k + scheme (+ tail) and scheme letters spread by unit^k, for every k in 0..100 and -2..+2 around 128 .. 4096 and every new integer constant, 12 units (kept bytes x, /, a rune; stripped or ignored bytes; references to each) x 4 scheme stems x {lower, UPPER}: the URL predicate of model and implementation at every distance from the start of the value", Share: 1,
				Run: func(w *fw.W) {
					var ks []int
					for k := 0; k <= 100; k++ {
						ks = append(ks, k)
					}
					cs := []int{128, 256, 512, 1024, 4096}
					for _, n := range alpha.NewInts() {
						if n > 100 && n <= 1<<16 {
							cs = append(cs, n)
						}
					}
					for _, c := range cs {
						for d := -2; d <= 2; d++ {
							ks = append(ks, c+d)
						}
					}
					units := []string{"x", "/", "\u00e9", " ", "\x01", "\x7f", "\xff", "\x00", "\n", "&#120;", "&#32;", "&#0;"}
					var items []string
					for _, sc := range []string{"javascript:", "vbscript:", "data:", "view-source:", "JAVASCRIPT:", "VBSCRIPT:", "DATA:", "VIEW-SOURCE:"} {
						for _, k := range ks {
							for _, u := range units {
								r := strings.Repeat(u, k)
								items = append(items, r+sc+"x", r+sc[:1]+"&#x"+fmt.Sprintf("%x", sc[1])+";"+sc[2:], sc[:2]+r+sc[2:]+"x")
							}
						}
					}
					w.Each(len(items), func(i int) { w.Item(items[i], "") })
				},
				Eval: func(w *fw.W, s, _ string) { evalC07Pred(w, s, "url") }},
		},
	})
}

func init() {
	c := fw.Lookup("C07")
	c.Phases = append(c.Phases, htmlExtraPhases(evalC07, true)...)
}
