package props

import (
	"fmt"
	"runtime"
	"sync"

	lib "github.com/corazawaf/libinjection-go"

	"verif/alpha"
	"verif/fw"
	"verif/refsql"
)

// E-FOLD: closure of the folder automaton over the 16-class core alphabet (explicit-state,
// unbounded input length). A state is the MODEL's folder configuration at the moment the input
// runs out (window tokens with values, settled count, pending comment, capped statistics); a
// transition appends one token fragment. Breadth-first until no new configuration appears. Every
// transition is validated on the real code: the implementation's folded window, statistics,
// fingerprint, blacklist bit and verdict for the concrete input (shortest path to the state + the
// fragment) must equal the model's. Configurations where the folder has stopped reading are
// terminal. When the frontier empties the result covers token sequences of EVERY length.

type closureJob struct {
	path string
}

type closureOut struct {
	key     string
	input   string
	stopped bool
	bad     string
}

func closureCompare(m *refsql.Model, in string, fl int, md refsql.Mode) string {
	ic := lib.VerifSQLContext(in, fl)
	rc := m.Context(in, md)
	if ic.Fingerprint != rc.Fingerprint || ic.Blacklisted != rc.Blacklisted || ic.Verdict != rc.Verdict {
		return fmt.Sprintf("impl fp=%q black=%v sqli=%v | model fp=%q black=%v sqli=%v", ic.Fingerprint, ic.Blacklisted, ic.Verdict, rc.Fingerprint, rc.Blacklisted, rc.Verdict)
	}
	if d := compareToks(ic.Toks, rc.Toks); d != "" && rc.Fingerprint != "X" {
		return "folded window: " + d
	}
	if ic.Stats.Tokens != rc.Stats.Tokens || ic.Stats.Folds != rc.Stats.Folds || ic.Stats.DDX != rc.Stats.DDX || ic.Stats.Hash != rc.Stats.Hash {
		return fmt.Sprintf("statistics impl=%+v model=%+v", ic.Stats, rc.Stats)
	}
	return ""
}

func runFoldClosure(w *fw.W, syms []string, fl int, maxStates, maxDepth int) (cut bool) {
	m := sqlRef()
	md := refMode(fl)
	prev := runtime.GOMAXPROCS(16)
	defer runtime.GOMAXPROCS(prev)
	seen := map[uint64]struct{}{} // configurations by 64-bit hash of their canonical key
	k0, _ := m.FoldConfig(" ", md)
	seen[fw.Hash(k0)] = struct{}{}
	frontier := []string{""}
	closed := true
	depth := 0
	var transitions, terminal int64
	for len(frontier) > 0 {
		if w.Remaining() <= 0 || len(seen) >= maxStates {
			closed = false
			cut = true
			break
		}
		if maxDepth > 0 && depth >= maxDepth {
			closed = false
			break
		}
		depth++
		nw := 16
		outs := make([][]closureOut, nw)
		var wg sync.WaitGroup
		for g := 0; g < nw; g++ {
			wg.Add(1)
			go func(g int) {
				defer wg.Done()
				var local []closureOut
				for i := g; i < len(frontier); i += nw {
					p := frontier[i]
					for _, a := range syms {
						in := p + a
						var o closureOut
						o.input = in
						func() {
							defer func() {
								if r := recover(); r != nil {
									o.bad = fmt.Sprintf("panic: %v", r)
								}
							}()
							o.key, o.stopped = m.FoldConfig(in, md)
							o.bad = closureCompare(m, in, fl, md)
						}()
						local = append(local, o)
					}
				}
				outs[g] = local
			}(g)
		}
		wg.Wait()
		var next []string
		for _, l := range outs {
			for _, o := range l {
				transitions++
				if o.bad != "" {
					w.Report(o.input, modeName(fl), "fold-closure", "mode "+modeName(fl)+": "+o.bad)
					continue
				}
				if o.stopped {
					terminal++
					continue
				}
				if _, ok := seen[fw.Hash(o.key)]; !ok {
					seen[fw.Hash(o.key)] = struct{}{}
					next = append(next, o.input)
				}
			}
		}
		frontier = next
	}
	w.CountEvals(int(transitions))
	w.States(len(seen))
	w.Transitions(int(transitions))
	w.Traces(int(transitions))
	w.Extra("closure_states_"+modeName(fl), int64(len(seen)))
	w.Extra("closure_terminal_transitions", terminal)
	w.ExtraMax("max_closure_depth", int64(depth))
	if closed {
		w.Extra("closures_reaching_fixpoint", 1)
		w.Note(fmt.Sprintf("mode %s: fixpoint after %d levels: %d folder configurations, %d transitions validated on the implementation; covers token sequences of every length over the %d-symbol core alphabet", modeName(fl), depth, len(seen), transitions, len(syms)))
	} else if cut {
		w.Note(fmt.Sprintf("mode %s: closure NOT reached (budget or state cap hit): %d configurations to depth %d", modeName(fl), len(seen), depth))
	} else {
		w.Note(fmt.Sprintf("mode %s: bounded by design to %d levels in this tier (the thorough tier runs to the fixpoint): %d configurations, %d transitions validated", modeName(fl), depth, len(seen), transitions))
	}
	for i := 0; i < 3 && i < len(frontier); i++ {
		w.Sample(map[string]any{"mode": modeName(fl), "unexpanded_state_reached_by": frontier[i]})
	}
	if w.WantSample() {
		w.Sample(map[string]any{"mode": modeName(fl), "configurations": len(seen), "transitions": transitions, "closed": closed})
	}
	return cut
}

// evalClosureReplay re-validates one transition (replay of a violation file).
func evalClosureReplay(w *fw.W, in, mode string) {
	for _, fl := range sqlModes {
		if modeName(fl) == mode {
			if bad := closureCompare(sqlRef(), in, fl, refMode(fl)); bad != "" {
				w.Fail("fold-closure", "mode "+mode+": "+bad)
			}
		}
	}
}

func closurePhase() fw.Phase {
	return fw.Phase{Name: "fold-closure", Serial: true, Share: 6,
		Space: "breadth-first closure of the folder automaton over the 16-class core alphabet in as-is/ANSI, as-is/MySQL and single-quote/ANSI modes (thorough, as-is/ANSI: 20 classes incl. IN, NOT, LIKE, backslash; about 5.2 M configurations); every transition validated on the implementation; quick: 5 levels; thorough: to the fixpoint = all token-sequence lengths",
		Run: func(w *fw.W) {
			anyCut := false
			for i, fl := range []int{fNone | fAnsi, fNone | fMysql, fSingle | fAnsi} {
				syms := alpha.S3core
				if w.Thorough() && i == 0 {
					// thorough, as-is/ANSI: the core plus the tokens whose class a later rule rewrites (IN, NOT, LIKE, backslash)
					syms = append(append([]string{}, alpha.S3core...), "in ", "not ", "\\ ", "like ")
				}
				if runFoldClosure(w, syms, fl, 9000000, w.Pick(5, 0)) {
					anyCut = true
				}
			}
			w.Finish()
			if anyCut {
				w.MarkIncomplete()
			}
		},
		Eval: evalClosureReplay}
}
