package props

import (
	"fmt"
	"sort"
	"strings"

	lib "github.com/corazawaf/libinjection-go"

	"verif/alpha"
	"verif/fw"
)

// C14 — plain words and numbers are never reported as SQLi.

var (
	c14Keys       map[string]byte
	c14Components map[string]bool
)

func c14Load() {
	c14Keys = lib.VerifSQLKeywords()
	c14Components = map[string]bool{}
	for k := range c14Keys {
		for _, part := range strings.Split(k, " ") {
			c14Components[part] = true
		}
	}
}

// admissible: an identifier that is neither a key nor a space-separated component of a key.
func c14Admissible(wd string) bool {
	u := strings.ToUpper(wd)
	if _, ok := c14Keys[u]; ok {
		return false
	}
	return !c14Components[u]
}

func isIdent(s string) bool {
	if s == "" {
		return false
	}
	for i := 0; i < len(s); i++ {
		c := s[i]
		ok := c == '_' || (c >= 'a' && c <= 'z') || (c >= 'A' && c <= 'Z') || (i > 0 && c >= '0' && c <= '9')
		if !ok {
			return false
		}
	}
	return true
}

// evalC14Abstract: the model check of the class abstraction: no {n,1} sequence is blacklisted.
func evalC14Abstract(w *fw.W, fp, _ string) {
	if lib.VerifBlacklisted(fp) {
		w.Fail("blacklisted-plain", fmt.Sprintf("fingerprint %q made only of barewords and numbers is in the blacklist", fp))
		return
	}
	w.Traces(1)
	w.NonTrivial()
	w.OutcomeStr(fp)
}

// evalC14Token: conformance of the abstraction, lexical level: one admissible word lexes to exactly
// one bareword token, one digit run to exactly one number token, and neither is SQLi.
func evalC14Token(w *fw.W, s, kind string) {
	want := byte('n')
	if kind == "number" {
		want = '1'
	} else if !c14Admissible(s) {
		return
	}
	// the public verdict first: the accessor below may panic where the public call (which may recover) does not
	if b, f := lib.IsSQLi(s); b || f != "" {
		w.Fail("false-positive", fmt.Sprintf("IsSQLi=(%v,%q)", b, f))
		return
	}
	toks, _, _ := lib.VerifSQLTokens(s, fNone|fAnsi)
	if len(toks) != 1 || toks[0].Category != want {
		w.Fail("lexes-differently", fmt.Sprintf("%s %q lexes to %s, want a single %q", kind, s, fmtImplToksSQL(toks), want))
		return
	}
	w.Traces(1)
	w.NonTrivial()
	w.Outcome(uint64(want))
}

// evalC14Seq: sequences of admissible words / numbers joined by single spaces.
func evalC14Seq(w *fw.W, s, _ string) {
	if b, f := lib.IsSQLi(s); b || f != "" {
		w.Fail("false-positive", fmt.Sprintf("plain words/numbers reported: IsSQLi=(%v,%q)", b, f))
		return
	}
	// the folded window must be the first <=5 classes of the item sequence (no fold rule fires)
	want := make([]byte, 0, 5)
	for _, it := range strings.Split(s, " ") {
		if len(want) == 5 {
			break
		}
		if it[0] >= '0' && it[0] <= '9' {
			want = append(want, '1')
		} else {
			want = append(want, 'n')
		}
	}
	toks, _, _ := lib.VerifSQLFold(s, fNone|fAnsi)
	if classes(toks) != string(want) {
		w.Fail("abstraction", fmt.Sprintf("folded classes %q, the class abstraction says %q", classes(toks), want))
		return
	}
	w.Traces(2)
	w.NonTrivial()
	w.OutcomeStr(string(want))
}

// c14ListSeps: separators of long lists, calibrated once on the repaired pinned tree (VERIF_CALIB=C14 prints the
// separators for which some length 1..300 is reported; those are not in this list).
var c14ListSeps = []string{", ", " ", ". ", " - ", ": ", "; "}

// c14NearKeywords: plain words one edit away from a key of the current table.
func c14NearKeywords() []string {
	var keys []string
	for k, v := range c14Keys {
		if v != 'F' && isIdent(k) {
			keys = append(keys, asciiLower(k))
		}
	}
	sort.Strings(keys)
	seen := map[string]bool{}
	var out []string
	add := func(wd string) {
		if !seen[wd] && isIdent(wd) && c14Admissible(wd) {
			seen[wd] = true
			out = append(out, wd)
		}
	}
	for _, k := range keys {
		for _, sfx := range []string{"1", "7", "10", "16", "256", "x", "s", "_"} {
			add(k + sfx)
		}
		add("x" + k)
		add("_" + k)
		add(k + k)
		for i := 1; i < len(k); i++ {
			add(k[:i] + "_" + k[i:])
		}
	}
	return out
}

func c14Lists() [][2]string {
	var out [][2]string
	ks := []int{}
	for k := 1; k <= 300; k++ {
		ks = append(ks, k)
	}
	for _, n := range alpha.NewInts() {
		if n > 300 && n <= 20000 {
			ks = append(ks, n-1, n, n+1)
		}
	}
	for _, sep := range c14ListSeps {
		for kind := 0; kind < 3; kind++ {
			for _, k := range ks {
				var sb strings.Builder
				for i := 0; i < k; i++ {
					if i > 0 {
						sb.WriteString(sep)
					}
					switch {
					case kind == 0, kind == 2 && i%2 == 0:
						sb.WriteString(c14Words[i%len(c14Words)])
					default:
						sb.WriteString(c14Numbers[i%len(c14Numbers)])
					}
				}
				shape := fmt.Sprintf("list kind=%d sep=%q k=%d", kind, sep, k)
				out = append(out, [2]string{sb.String(), shape}, [2]string{sb.String() + ".", shape + " + full stop"})
			}
		}
	}
	return out
}

func evalC14Shape(w *fw.W, s, shape string) {
	if b, f := lib.IsSQLi(s); b || f != "" {
		w.Fail("false-positive", fmt.Sprintf("benign shape %q reported: IsSQLi=(%v,%q)", shape, b, f))
		return
	}
	w.Traces(1)
	w.NonTrivial()
	w.OutcomeStr(shape)
}

var c14Words = []string{"foo", "bar", "hello", "world9", "_x", "zz_top", "a1", "Bob", "SMITH", "qux", "e5x", "n0", "xyzzy", "b2b", "dd", "uu", "Quux", "id_7", "lorem", "ipsum"}
var c14Numbers = []string{"1", "42", "007", "2024", "0", "1000000"}

// benign shapes: W = word slot, D = number slot. Calibrated once on the repaired pinned tree: every
// listed shape is never reported for any filling; shapes the pinned tree does report were dropped
// (the statement only promises "simple" shapes) and are kept below as comments.
var c14Shapes = []string{
	"W@W.W", "W.W@W.W", "D.D", "D,D", "W W, W W.", "W W W!", "W: D", "W (W)", "W-W", "W, W", "W. W", "W W?", "D W", "W D",
	"W_W", "W/W", "D-D-D", "D:D", "W & W", "W+W", "D%", "$D", "W #D", "W. W. W.", "W, W, W", "D.D.D.D", "W W (W W)", "W: W, W", "W - W", "D/D/D", "W=W", "W=D",
}

func fillShape(shape string, f func(s string)) {
	var rec func(i int, cur string)
	rec = func(i int, cur string) {
		if i == len(shape) {
			f(cur)
			return
		}
		switch shape[i] {
		case 'W':
			for _, wd := range c14ShapeWords {
				rec(i+1, cur+wd)
			}
		case 'D':
			for _, d := range c14Numbers {
				rec(i+1, cur+d)
			}
		default:
			rec(i+1, cur+shape[i:i+1])
		}
	}
	rec(0, "")
}

var c14ShapeWords []string
var c14Items []string

// C14Calibrate prints the shapes that are reported for some filling (development only).
func C14Calibrate() {
	c14Load()
	c14Setup()
	for _, sh := range c14Shapes {
		bad, n := 0, 0
		ex := ""
		fillShape(sh, func(s string) {
			n++
			if b, _ := lib.IsSQLi(s); b {
				bad++
				if ex == "" {
					ex = s
				}
			}
		})
		fmt.Printf("%-16q fillings=%d reported=%d %q\n", sh, n, bad, ex)
	}
}

func c14Setup() {
	c14ShapeWords = nil
	for _, wd := range c14Words {
		if c14Admissible(wd) && len(c14ShapeWords) < 12 {
			c14ShapeWords = append(c14ShapeWords, wd)
		}
	}
	c14Items = nil
	for _, wd := range c14ShapeWords[:7] {
		c14Items = append(c14Items, wd)
	}
	c14Items = append(c14Items, "1", "42", "007")
}

func init() {
	fw.Register(&fw.Check{
		ID:              "C14",
		PanicOutOfScope: true,
		QuickS:          60,
		ThoroughS:       600,
		Rule: "model: the token-class abstraction (admissible word -> n, digit run -> 1, single spaces vanish, no fold rule fires) is model-checked exhaustively: all 62 sequences in {n,1}^1..5 must be absent from the current blacklist (real look-up). " +
			"conformance of the abstraction: every identifier of length <=3 over [a-z_][a-z0-9_]* in lower/UPPER/Capitalised form plus a word list, filtered by the table rule (not a key, not a component of a key), lexes to exactly one bareword and is not SQLi; " +
			"digit runs lex to one number; every sequence of <=7 (quick) / <=8 (thorough) items over a 10-item word/number set joined by single spaces is not SQLi and folds to its first 5 classes; every filling of each benign shape over 12 words x 6 numbers is not SQLi; all cases non-trivial",
		Assumptions: []string{"the family definition (admissible word) is computed from the current keyword table through the accessor", "benign shapes were calibrated once on the repaired pinned tree (list fixed in c14.go)"},
		Setup: func(w *fw.W) error {
			c14Load()
			c14Setup()
			if len(c14ShapeWords) < 8 {
				return fmt.Errorf("too few admissible words left")
			}
			return nil
		},
		Phases: []fw.Phase{
			{Name: "abstract-model", Space: "all 62 class sequences {n,1}^1..5", Share: 1, Serial: true,
				Run: func(w *fw.W) {
					w.Trie([]string{"n", "1"}, 1, 5)
				}, Eval: evalC14Abstract},
			{Name: "word-lexing", Space: "identifiers of length <=3 x {lower, UPPER, Capitalised} + word list + numbers 0..1000 and long digit runs", Share: 2,
				Run: func(w *fw.W) {
					first := "abcdefghijklmnopqrstuvwxyz_"
					rest := first + "0123456789"
					var words []string
					for i := 0; i < len(first); i++ {
						a := first[i : i+1]
						words = append(words, a)
						for j := 0; j < len(rest); j++ {
							ab := a + rest[j:j+1]
							words = append(words, ab)
							for k := 0; k < len(rest); k++ {
								words = append(words, ab+rest[k:k+1])
							}
						}
					}
					for k := 4; k <= 100; k++ { // long identifiers (the 31-byte value clip and fixed-size windows)
						words = append(words, strings.Repeat("a", k), strings.Repeat("ab_", k)[:k], "z"+strings.Repeat("9", k-1))
					}
					words = append(words, c14Words...)
					words = append(words, "information", "customer", "address", "telephone", "monday", "reference", "a_very_long_identifier_of_31_by", "an_identifier_longer_than_31_bytes_x")
					w.Each(len(words), func(i int) {
						wd := words[i]
						w.Item(wd, "word")
						w.Item(asciiUpper(wd), "word")
						w.Item(asciiUpper(wd[:1])+wd[1:], "word")
					})
					var nums []string
					for i := 0; i <= 1000; i++ {
						nums = append(nums, fmt.Sprint(i))
					}
					nums = append(nums, "007", "1000000000", strings.Repeat("9", 31), strings.Repeat("1", 40), "00", "0123456789")
					w.Each(len(nums), func(i int) { w.Item(nums[i], "number") })
				}, Eval: evalC14Token},
			{Name: "word-number-sequences", Space: "all sequences of 1..7 (quick) / ..8 (thorough) items over 7 words + 3 numbers, single spaces", Share: 4,
				Run: func(w *fw.W) {
					al := make([]string, len(c14Items))
					for i, it := range c14Items {
						al[i] = it + " "
					}
					w.Trie(al, 1, w.Pick(7, 8))
				},
				Eval: func(w *fw.W, s, a string) { evalC14Seq(w, strings.TrimSuffix(s, " "), a) }},
			{Name: "long-words-and-numbers", Space: "one word / one number of every length 1..400 and around 1024, 4096, 65536, 1 MiB and every integer constant the tree under test has in addition to the pinned tree (N-1, N, N+1), leading digit 1 / 2 / 9, alone and inside a sentence: magnitude, length and scan-offset limits that fail closed", Share: 1,
				Run: func(w *fw.W) {
					lens := []int{}
					for k := 1; k <= 400; k++ {
						lens = append(lens, k)
					}
					for _, n := range append([]int{1024, 4096, 65536, 1 << 20}, alpha.NewInts()...) {
						if n > 400 && n <= 1<<21 {
							lens = append(lens, n-1, n, n+1)
						}
					}
					type it struct{ s, shape string }
					var items []it
					for _, k := range lens {
						for _, d := range []string{"1", "2", "9"} {
							num := d + strings.Repeat("7", k-1)
							items = append(items, it{num, "long number"}, it{"parcel " + num + " delivered", "long number in a sentence"})
						}
						wd := strings.Repeat("qzjx_w7", k/7+1)[:k]
						if wd[0] >= '0' && wd[0] <= '9' {
							wd = "q" + wd[1:]
						}
						items = append(items, it{wd, "long word"}, it{"memo " + wd + " done", "long word in a sentence"}, it{"a b c " + wd, "long word after three words"})
					}
					w.Each(len(items), func(i int) { w.Item(items[i].s, items[i].shape) })
				}, Eval: evalC14Shape},
			{Name: "long-word-keyword-tails", Space: "one plain word = filler^L + a keyword spelling, for every L in 1..120 and -34..+34 around every power of two 2^7..2^16 and around every new integer constant of the tree under test, 2 fillers x 8 keyword tails x {alone, + ' 1', after a word}: a word is one token however long it is, so no suffix of it may be read as a keyword", Share: 1,
				Run: func(w *fw.W) {
					seenL := map[int]bool{}
					var lens []int
					addL := func(k int) {
						if k >= 1 && !seenL[k] {
							seenL[k] = true
							lens = append(lens, k)
						}
					}
					for k := 1; k <= 120; k++ {
						addL(k)
					}
					cs := []int{}
					for e := 7; e <= 16; e++ {
						cs = append(cs, 1<<uint(e))
					}
					for _, n := range alpha.NewInts() {
						if n > 120 && n <= 1<<17 {
							cs = append(cs, n)
						}
					}
					for _, c := range cs {
						for d := -34; d <= 34; d++ {
							addL(c + d)
						}
					}
					kws := []string{"having", "union", "select", "or", "limit", "sleep", "between", "into"}
					w.Each(len(lens), func(i int) {
						k := lens[i]
						for _, fill := range []string{"a", "q_7"} {
							body := strings.Repeat(fill, k/len(fill)+1)[:k]
							if body[0] >= '0' && body[0] <= '9' {
								body = "q" + body[1:]
							}
							for _, kw := range kws {
								wd := body + kw
								w.Item(wd, "long word ending in a keyword spelling")
								w.Item(wd+" 1", "long word ending in a keyword spelling, then a number")
								w.Item("memo "+wd+" 1 done", "long word ending in a keyword spelling, in a sentence")
							}
						}
					})
				}, Eval: evalC14Shape},
			{Name: "near-keyword-words", Space: "for every non-fingerprint key of the current table: the key with 1..3 digits appended, with a letter appended / prepended, with '_' inserted at every position, doubled, each in lower case, kept only when it is an admissible plain word (identifier, not a key or key component); as a single token and in 6 word/number sentences", Share: 2,
				Run: func(w *fw.W) {
					words := c14NearKeywords()
					tmpl := []string{"W", "page W 10", "7 W wins", "1 W 2 W 3", "W W", "12 W 3 W 4", "foo W bar"}
					w.Each(len(words)*len(tmpl), func(i int) {
						w.Item(strings.ReplaceAll(tmpl[i%len(tmpl)], "W", words[i/len(tmpl)]), "near-keyword "+tmpl[i%len(tmpl)])
					})
				}, Eval: evalC14Shape},
			{Name: "long-lists", Space: "lists of k items for EVERY k in 1..300 (+ the neighbourhood of new integer constants): items = words / numbers / alternating, separators in the calibrated set, with and without a final full stop", Share: 1,
				Run: func(w *fw.W) {
					var items [][2]string
					for _, l := range c14Lists() {
						items = append(items, l)
					}
					w.Each(len(items), func(i int) { w.Item(items[i][0], items[i][1]) })
				}, Eval: evalC14Shape},
			{Name: "benign-shapes", Space: "every filling of each listed shape over 12 words x 6 numbers", Share: 2,
				Run: func(w *fw.W) {
					w.Each(len(c14Shapes), func(i int) {
						fillShape(c14Shapes[i], func(s string) { w.Item(s, c14Shapes[i]) })
					})
				}, Eval: evalC14Shape},
		},
	})
}
