package props

import (
	"fmt"
	"strings"

	lib "github.com/corazawaf/libinjection-go"

	"verif/alpha"
	"verif/fw"
	"verif/refhtml"
)

// C11 — XSS detection is insensitive to letter case and to NUL bytes inside names.

func isLetter(c byte) bool { return (c >= 'a' && c <= 'z') || (c >= 'A' && c <= 'Z') }

func flipCase(b []byte, i int) { b[i] ^= 0x20 }

// caseVariants calls f on case re-assignments of the letters of s: all 2^k when k <= maxAll,
// otherwise all-lower, ALL-UPPER and every single and double flip from each of those two.
// Returns the number of variants and whether the set was the complete 2^k.
func caseVariants(s string, locked []bool, maxAll int, f func(v string) bool) (int, bool) {
	var pos []int
	for i := 0; i < len(s); i++ {
		if isLetter(s[i]) && (locked == nil || !locked[i]) {
			pos = append(pos, i)
		}
	}
	k := len(pos)
	b := []byte(s)
	n := 0
	if k <= maxAll {
		for m := 0; m < 1<<uint(k); m++ {
			for j, p := range pos {
				if m>>uint(j)&1 == 1 {
					b[p] = s[p] &^ 0x20
				} else {
					b[p] = s[p] | 0x20
				}
			}
			n++
			if !f(string(b)) {
				return n, true
			}
		}
		return n, true
	}
	// flips range over all free letters, or over the first and last 24 of them when there are more than 48
	// (bases of kilobytes exist in the length / count families; k^2 variants of each would never finish)
	all := pos
	if k > 48 {
		pos = append(append([]int{}, all[:24]...), all[k-24:]...)
		k = len(pos)
	}
	for _, upper := range []bool{false, true} {
		for _, p := range all {
			if upper {
				b[p] = s[p] &^ 0x20
			} else {
				b[p] = s[p] | 0x20
			}
		}
		n++
		if !f(string(b)) {
			return n, false
		}
		for i := 0; i < k; i++ {
			flipCase(b, pos[i])
			n++
			if !f(string(b)) {
				return n, false
			}
			for j := i + 1; j < k; j++ {
				flipCase(b, pos[j])
				n++
				ok := f(string(b))
				flipCase(b, pos[j])
				if !ok {
					return n, false
				}
			}
			flipCase(b, pos[i])
		}
	}
	return n, false
}

// c11Hide neutralises the four attribute contexts for any quote-free text that follows it: each
// of them swallows the text into an unterminated quoted value of a harmless attribute, so
// IsXSS(c11Hide + s) is decided by the element-content context alone (and prepending '<'-free text
// does not change that context's verdict).
const c11Hide = "\"a='b=`c=\""

// c11FragNow: the fragment alphabet plus the (lower-cased) literals the tree under test has in addition to the pinned tree.
func c11FragNow() []string {
	var extra []string
	for _, a := range uniq(alpha.DeltaHTML(), newByteAtoms()) {
		extra = append(extra, asciiLower(a))
	}
	return uniq(c11Frag, extra)
}

func evalC11CaseIsolated(w *fw.W, s, aux string) {
	if strings.ContainsAny(s, "'\"`") {
		return
	}
	evalC11Case(w, c11Hide+s, aux)
}

func evalC11Case(w *fw.W, s, _ string) {
	low := asciiLower(s)
	if s != low {
		return // the class of s is explored from its all-lower-case representative
	}
	if strings.Contains(low, "[cdata[") {
		return // the one case-sensitive marker
	}
	base := lib.IsXSS(s)
	n, all := caseVariants(s, nil, 8, func(v string) bool {
		if got := lib.IsXSS(v); got != base {
			w.Fail("case", fmt.Sprintf("IsXSS(%q)=%v but IsXSS(%q)=%v", s, base, v, got))
			return false
		}
		return true
	})
	w.Traces(n)
	if n > 1 {
		w.NonTrivial()
	}
	if all {
		w.Extra("bases_with_all_2k_assignments", 1)
	} else {
		w.Extra("bases_with_le2_flips", 1)
	}
	if base {
		w.Outcome(1)
	} else {
		w.Outcome(0)
	}
}

func evalC11Nul(w *fw.W, s, _ string) {
	pairs := w.Thorough()
	for _, c := range htmlCtx {
		toks, _ := lib.VerifH5Tokens(s, c)
		var base, haveBase bool
		for _, t := range toks {
			if t.Type != refhtml.TagNameOpen && t.Type != refhtml.AttrName {
				continue
			}
			for p := t.Off + 1; p < t.Off+t.Len; p++ {
				if !haveBase {
					base, haveBase = lib.VerifXSSContext(s, c), true
				}
				v := s[:p] + "\x00" + s[p:]
				if got := lib.VerifXSSContext(v, c); got != base {
					w.Fail("nul", fmt.Sprintf("ctx %s: verdict %v, with NUL inserted at %d inside %s token (%q): %v", htmlCtxName[c], base, p, h5TypeName(t.Type), v, got))
					return
				}
				w.Traces(1)
				if pairs {
					for q := p; q < t.Off+t.Len; q++ {
						v2 := v[:q+1] + "\x00" + v[q+1:]
						if got := lib.VerifXSSContext(v2, c); got != base {
							w.Fail("nul", fmt.Sprintf("ctx %s: verdict %v, with two NULs inserted (%q): %v", htmlCtxName[c], base, v2, got))
							return
						}
						w.Traces(1)
					}
				}
			}
		}
		if haveBase {
			w.NonTrivial()
			if base {
				w.Outcome(uint64(c)<<1 | 1)
			} else {
				w.Outcome(uint64(c) << 1)
			}
		}
	}
}

// H2 plus names whose case/NUL handling is separate code: events, URL attributes, schemes, doctype, IE markers
var c11Frag = append(append([]string{}, alpha.H2...), "<svt", "<xsl", "onclick", "src", "xlink:href", "data:", "vbscript:", "view-source:", "<!entity", "<?import", "<![if", "filter", "datasrc", "formaction",
	"<scr\u0131pt", "<\u017fcript", "on\u017fubmit", "act\u0131on", "<l\u0131nk") // names spelled with runes that upper-case to ASCII letters

func init() {
	var vectors []string
	fw.Register(&fw.Check{
		ID:        "C11",
		QuickS:    100,
		ThoroughS: 600,
		Rule: "case: every all-lower-case base string over the HTML alphabets up to the completed level (and the C04 vector set) without `[cdata[`: ALL 2^k case re-assignments when k<=8 letters, " +
			"else lower/UPPER plus every single and double flip from each; IsXSS must not change. NUL: every base string (any case), every context, every TAG_NAME_OPEN/ATTR_NAME token of the real token stream, " +
			"every interior position (thorough: every pair): the per-context verdict must not change. traces = variants compared; non-trivial = base had at least one variant",
		Assumptions: []string{"case deviations beyond 2 flips on bases with more than 8 letters are not enumerated (bound reported in extra counters)"},
		Setup: func(w *fw.W) error {
			htmlLists()
			vectors = c04Vectors(false)
			// constructs with two correlated names or with named character references: detection may differ
			// between spellings only through their case (not part of the must-detect grammar, only of the invariance check)
			for _, ref := range []string{"&newline;", "&tab;", "&colon;", "&lpar;", "&#x0a;", "&#9;"} {
				for _, a := range []string{"href", "src", "action", "xlink:href"} {
					vectors = append(vectors, "<a "+a+"=\"ja"+ref+"vascript:alert(1)\">", "<a "+a+"=java"+ref+"script"+ref+"alert(1)>", "<a "+a+"='"+ref+"data:x'>")
				}
			}
			for _, pfx := range []string{"xl", "x", "xlink", "svg", "a1"} {
				vectors = append(vectors, "<svg xmlns:"+pfx+"=http://www.w3.org/1999/xlink><a "+pfx+":href=javascript:alert(1)>", "<svg xmlns:"+pfx+"=x "+pfx+":href=data:y>", "<a xmlns:"+pfx+"=x><b "+pfx+":onclick=alert(1)>")
			}
			return nil
		},
		Phases: []fw.Phase{
			{Name: "case-trie-H1", Space: "lower-case strings of H1^<=4 (quick) / <=5 (thorough) and of H1core^5 x case assignments", Share: 4,
				Run: func(w *fw.W) { w.Trie(alpha.H1, 1, w.Pick(4, 5)) }, Eval: evalC11Case},
			{Name: "case-trie-H1core-deep", Space: "lower-case strings of H1core^5 (quick) / ^5..6 (thorough) x case assignments", Share: 3,
				Run: func(w *fw.W) { w.Trie(alpha.H1core, 5, w.Pick(5, 6)) }, Eval: evalC11Case},
			{Name: "case-trie-H1-data-isolated", Space: "hiding prefix + lower-case quote-free strings of H1^<=5 x case assignments: only the element-content context can fire (quick <=3, thorough <=4)", Share: 3,
				Run: func(w *fw.W) { w.Trie(alpha.H1, 1, w.Pick(3, 4)) }, Eval: evalC11CaseIsolated},
			{Name: "case-trie-fragments", Space: "fragment alphabet (H2 + event/URL/scheme/doctype names + new literals of the tree under test)^<=3 (quick) / <=4 (thorough) x case assignments", Share: 4,
				Run: func(w *fw.W) { w.Trie(c11FragNow(), 1, w.Pick(3, 4)) }, Eval: evalC11Case},
			{Name: "case-vectors", Space: "every C04 grammar vector x case assignments", Share: 2,
				Run: func(w *fw.W) {
					w.Each(len(vectors), func(i int) { w.Item(asciiLower(vectors[i]), "") })
					list(w, deltaSlotsHTML()) // new literals of the tree under test in the slots of canonical vectors
				}, Eval: evalC11Case},
			{Name: "case-scheme-tails", Space: "every URL attribute x 4 schemes x tail in {each letter of the scheme, the scheme again, x} x 2 quotings x case assignments: a later occurrence of a scheme letter in the other case must not hide the scheme", Share: 1,
				Run: func(w *fw.W) {
					var items []string
					htmlLists()
					var urlAttrs []string
					for _, a := range hAttrs {
						if a.Type == refhtml.AttrURL {
							urlAttrs = append(urlAttrs, asciiLower(a.Name))
						}
					}
					for _, a := range urlAttrs {
						for _, sc := range []string{"javascript:", "vbscript:", "data:", "view-source:"} {
							tails := []string{sc, "x"}
							seen := map[byte]bool{}
							for i := 0; i < len(sc); i++ {
								if c := sc[i]; c >= 'a' && c <= 'z' && !seen[c] {
									seen[c] = true
									tails = append(tails, string([]byte{c}))
								}
							}
							for _, t := range tails {
								items = append(items, "<a "+a+"="+sc+t+">", "<a "+a+"=\""+sc+"f("+t+")\">")
							}
						}
					}
					w.Each(len(items), func(i int) { w.Item(items[i], "") })
				}, Eval: evalC11Case},
			{Name: "nul-trie-H1", Space: "H1^<=4 (quick) / <=5 (thorough) x 5 contexts x interior positions of name tokens", Share: 4,
				Run: func(w *fw.W) { w.Trie(alpha.H1, 1, w.Pick(4, 5)) }, Eval: evalC11Nul},
			{Name: "nul-trie-H1core-deep", Space: "H1core^5 (quick) / ^5..6 (thorough) x 5 contexts x interior positions of name tokens", Share: 3,
				Run: func(w *fw.W) { w.Trie(alpha.H1core, 5, w.Pick(5, 6)) }, Eval: evalC11Nul},
			{Name: "nul-trie-fragments", Space: "fragment alphabet^<=3 (quick) / <=4 (thorough) x 5 contexts x interior positions", Share: 3,
				Run: func(w *fw.W) { w.Trie(c11FragNow(), 1, w.Pick(3, 4)) }, Eval: evalC11Nul},
			{Name: "nul-vectors", Space: "every C04 grammar vector x 5 contexts x interior positions", Share: 2,
				Run: func(w *fw.W) {
					w.Each(len(vectors), func(i int) { w.Item(vectors[i], "") })
					list(w, deltaSlotsHTML())
				}, Eval: evalC11Nul},
		},
	})
}
