package props

import (
	"fmt"
	"strings"

	lib "github.com/corazawaf/libinjection-go"

	"verif/alpha"
	"verif/fw"
)

// C08 — verdict and fingerprint returned by IsSQLi are mutually consistent.

// reachableContexts lists, from the hook's fresh-state per-context results, the contexts the
// public cascade may evaluate, in order.
func reachableContexts(s string) []int {
	var out []int
	out = append(out, fNone|fAnsi)
	a := lib.VerifSQLContext(s, fNone|fAnsi)
	if a.Stats.DDX != 0 || a.Stats.Hash != 0 {
		out = append(out, fNone|fMysql)
	}
	if strings.IndexByte(s, '\'') >= 0 {
		out = append(out, fSingle|fAnsi)
		b := lib.VerifSQLContext(s, fSingle|fAnsi)
		if b.Stats.DDX != 0 || b.Stats.Hash != 0 {
			out = append(out, fSingle|fMysql)
		}
	}
	if strings.IndexByte(s, '"') >= 0 {
		out = append(out, fDouble|fMysql)
	}
	return out
}

func evalC08(w *fw.W, s, _ string) {
	b, f := lib.IsSQLi(s)
	if !b {
		if f != "" {
			w.Fail("false-with-fingerprint", fmt.Sprintf("verdict false but fingerprint %q", f))
		}
		w.Outcome(0)
		w.Traces(1)
		return
	}
	w.NonTrivial()
	w.OutcomeStr(f)
	if len(f) < 1 || len(f) > 5 {
		w.Fail("length", fmt.Sprintf("fingerprint %q has length %d, want 1..5", f, len(f)))
		return
	}
	for i := 0; i < len(f); i++ {
		if strings.IndexByte(sqlClassAlphabet, f[i]) < 0 {
			w.Fail("alphabet", fmt.Sprintf("fingerprint %q: %q is not a class character", f, f[i]))
			return
		}
		if f[i] == 'c' && i != len(f)-1 {
			w.Fail("comment-position", fmt.Sprintf("fingerprint %q carries the comment class before the last position", f))
			return
		}
	}
	if !lib.VerifBlacklisted(f) {
		w.Fail("not-blacklisted", fmt.Sprintf("returned fingerprint %q is not a member of the fingerprint blacklist", f))
		return
	}
	// it must be the fingerprint of the FIRST firing reachable context
	first := ""
	found := false
	for _, c := range reachableContexts(s) {
		r := lib.VerifSQLContext(s, c)
		w.Traces(1)
		if r.Verdict {
			first, found = r.Fingerprint, true
			break
		}
	}
	if !found {
		w.Fail("no-context", fmt.Sprintf("IsSQLi returned (true,%q) but no reachable context fires on a fresh state", f))
		return
	}
	if first != f {
		w.Fail("wrong-context", fmt.Sprintf("IsSQLi returned %q but the first firing context has fingerprint %q", f, first))
		return
	}
	// "is the fingerprint of the input under at least one parsing context": judged by the reference
	// algorithm too, not only by the implementation's own per-context accessor
	inRef := false
	var refFPs []string
	for _, m := range sqlModes {
		rf := sqlRef().Context(s, refMode(m)).Fingerprint
		refFPs = append(refFPs, rf)
		if rf == f {
			inRef = true
		}
	}
	w.Traces(1)
	if !inRef {
		w.Fail("not-a-fingerprint-of-the-input", fmt.Sprintf("IsSQLi returned %q; the reference algorithm gives %q for the six readings of this input", f, refFPs))
		return
	}
	if w.WantSample() {
		w.Sample(map[string]any{"input": s, "fingerprint": f})
	}
}

// evalC08Membership: the real blacklist test must agree with plain table membership for EVERY class
// string (a hashed / packed look-up that accepts a non-member shows here).
func evalC08Membership(w *fw.W, fp, _ string) {
	if fp == "" {
		return
	}
	want := c08Table["0"+asciiUpper(fp)] == 'F'
	got := lib.VerifBlacklisted(fp)
	w.Traces(1)
	if got != want {
		w.Fail("blacklist-membership", fmt.Sprintf("the blacklist test says %v for fingerprint %q, the shipped table says %v", got, fp, want))
		return
	}
	if want {
		w.NonTrivial()
		w.Outcome(fw.Hash(fp))
	}
}

var c08Table map[string]byte

func classSymbols() []string {
	var out []string
	seen := map[byte]bool{}
	for i := 0; i < len(sqlClassAlphabet); i++ {
		c := sqlClassAlphabet[i]
		if c == 'F' || seen[c] {
			continue
		}
		seen[c] = true
		out = append(out, string([]byte{c}))
	}
	return out
}

func init() {
	var cuts []string
	fw.Register(&fw.Check{
		ID:              "C08",
		PanicOutOfScope: true,
		QuickS:          60,
		ThoroughS:       600,
		Rule: "every string over the SQL byte / fragment / token-class alphabets up to the completed level and every fixture cut: false => empty fingerprint; true => 1..5 class characters, comment class only last, member of the blacklist (real look-up), " +
			"equal to the fingerprint of the first firing reachable context evaluated on a fresh state, and one of the fingerprints the reference algorithm (refsql) gives for the six readings of the input; non-trivial = verdict true; distinct_outcomes = distinct returned fingerprints",
		Assumptions: []string{"per-context results come from the build-tagged accessor running sqliFingerprint+checkFingerprint on a fresh state"},
		Setup: func(w *fw.W) error {
			cuts = alpha.Cuts(fixtures(), "'\"`", 4096)
			c08Table = lib.VerifSQLKeywords()
			return nil
		},
		Phases: []fw.Phase{
			{Name: "blacklist-membership", Space: "every class string of length 1..5 over the 26 class characters (12.4 M): real blacklist test == membership in the shipped table", Share: 2,
				Run: func(w *fw.W) { w.Trie(classSymbols(), 1, 5) }, Eval: evalC08Membership},
			{Name: "trie-S1-bytes", Space: "S1^<=4", Share: 3, Run: func(w *fw.W) { w.Trie(alpha.S1, 0, 4) }, Eval: evalC08},
			{Name: "trie-S2-fragments", Space: "S2^<=3 (quick) / <=4 (thorough)", Share: 3, Run: func(w *fw.W) { w.Trie(alpha.S2, 1, w.Pick(3, 4)) }, Eval: evalC08},
			{Name: "trie-S3-tokens", Space: "S3^<=4 (quick) / <=5 (thorough)", Share: 4, Run: func(w *fw.W) { w.Trie(alpha.S3, 1, w.Pick(4, 5)) }, Eval: evalC08},
			{Name: "trie-S3core-deep", Space: "S3core^5..6 (quick) / ..7 (thorough): 6th look-ahead token, fingerprint never longer than 5", Share: 4,
				Run: func(w *fw.W) { w.Trie(alpha.S3core, 5, w.Pick(6, 7)) }, Eval: evalC08},
			{Name: "corpus-cuts", Space: "all fixture cuts", Share: 1, Run: func(w *fw.W) { w.Each(len(cuts), func(i int) { w.Item(cuts[i], "") }) }, Eval: evalC08},
		},
	})
}

func init() {
	c := fw.Lookup("C08")
	c.Phases = append(c.Phases, sqlExtraPhases(evalC08, false)...)
}
