package props

import (
	_ "embed"
	"encoding/json"
	"fmt"
	"sort"
	"strings"

	lib "github.com/corazawaf/libinjection-go"

	"verif/alpha"
	"verif/fw"
)

// C03 — canonical SQL injection families are detected in every quoting context.
//
// G_sqli = prefix x payload x separator choice x case assignment x tail. The set of
// (payload, prefix, tail) productions was calibrated ONCE on the repaired pinned tree: a
// production is part of the grammar only if every separator and case variant of it is detected
// there. The calibrated production list is committed in c03_grammar.json; the check never
// re-calibrates at run time (VERIF_CALIB=C03 regenerates the file, development only).

var c03Prefixes = []string{"1", "1'", "1\"", "1)", "1')", "1\")", "x'", "x\"", "'", "\"", "-1", "1.0", "1'))", "a' ",
	"the quick brown fox jumps over'", "1 2 3 4 5 6 7'", "a b c d e f g\""} // multi-word values: the breaking quote lies beyond the first five tokens

// payloads are token lists; tokens are joined by the separator under test
var c03Payloads = map[string][][]string{
	"tautology": {
		{"or", "1=1"}, {"or", "'a'='a"}, {"or", "1"}, {"and", "1=1"}, {"||", "1=1"}, {"or", "true"}, {"or", "1", "like", "1"},
		{"or", "1", "=", "1"}, {"or", "2>1"}, {"or", "'1'='1'"}, {"and", "1", "in", "(1)"}, {"or", "not", "0"}, {"or", "1", "is", "not", "null"},
		{"having", "1=1"}, {"or", "1<>2"}, {"and", "'x'", "like", "'x'"}, {"xor", "1"}, {"or", "1", "between", "0", "and", "2"},
		// the parenthesised spellings of the same conditions (new payloads are appended: production keys carry the index)
		{"or", "(1=1)"}, {"and", "(2>1)"}, {"||", "(1=1)"}, {"or", "(", "1", "=", "1", ")"}, {"or", "(1)", "=", "(1)"}, {"or", "(1<2)"}, {"and", "(", "'a'", "=", "'a'", ")"},
	},
	"union": {
		{"union", "select", "1"}, {"union", "all", "select", "1,2"}, {"union", "select", "null,version()"}, {"union", "select", "a", "from", "b"},
		{"union", "select", "1,2,3", "from", "users"}, {"union", "distinct", "select", "1"}, {"union", "select", "@@version"}, {"union", "select", "null,null,null"},
		{"union", "(select", "1)"}, {"union", "select", "password", "from", "users", "where", "1=1"},
	},
	"stacked": {
		{";", "drop", "table", "t"}, {";", "select", "sleep(5)"}, {";", "exec", "xp_cmdshell", "'x'"}, {";", "if", "1=1", "waitfor", "delay", "'0:0:5'"},
		{";", "insert", "into", "t", "values(1)"}, {";", "update", "t", "set", "a=1"}, {";", "delete", "from", "t"}, {";", "shutdown"},
		{";", "declare", "@a", "int"}, {";", "waitfor", "delay", "'0:0:5'"},
	},
	"function": {
		{"and", "sleep(5)"}, {"or", "benchmark(1,md5(1))"}, {"and", "extractvalue(1,concat(0x7e,version()))"}, {"or", "pg_sleep(5)"},
		{"and", "1=convert(int,@@version)"}, {"and", "updatexml(1,concat(0x7e,user()),1)"}, {"or", "ascii(substring(user(),1,1))>64"},
		{"and", "load_file('/etc/passwd')"}, {"and", "(select", "count(*)", "from", "t)>0"}, {"or", "exists(select", "1)"},
		{"and", "if(1=1,sleep(5),0)"}, {"procedure", "analyse()"},
		// the words the folder promotes to functions when followed by "("
		{"and", "user()", "=", "'a'"}, {"and", "user_id()", "=", "1"}, {"and", "user_name()", "=", "'dbo'"}, {"and", "database()", "=", "'a'"}, {"and", "password()", "=", "'a'"},
		{"and", "current_user()", "=", "'a'"}, {"and", "current_date()", "=", "1"}, {"and", "current_time()", "=", "1"}, {"and", "current_timestamp()", "=", "1"},
		{"and", "localtime()", "=", "1"}, {"and", "localtimestamp()", "=", "1"},
	},
	"truncation": {
		{"or", "1=1", "--"}, {"--"}, {"#"}, {"/*"}, {"or", "1=1", "#"}, {"or", "1=1", "/*"}, {";", "--"}, {")", "--"}, {"or", "1=1", ";", "--"},
	},
}

var c03Seps = []string{" ", "\t", "\n", "\v", "\f", "\r", "\xa0", "/**/", "/*x*/", "/*" + "xxxxxxxxxxxxxxxxxxxxxxxxxxxxxxxxxxxxxxxx" + "*/", " /*" + "0123456789012345678901234567" + "*/ "}
var c03Tails = []string{"", "--", "-- ", "-- -", "#", "/*", ";--"}

//go:embed c03_grammar.json
var c03GrammarJSON []byte

type c03Prod struct {
	Family  string
	Payload int
	Prefix  int
	Tail    int
}

func c03Families() []string {
	var f []string
	for k := range c03Payloads {
		f = append(f, k)
	}
	sort.Strings(f)
	return f
}

func c03AllProds() []c03Prod {
	var out []c03Prod
	for _, fam := range c03Families() {
		for pi := range c03Payloads[fam] {
			for xi := range c03Prefixes {
				for ti := range c03Tails {
					out = append(out, c03Prod{fam, pi, xi, ti})
				}
			}
		}
	}
	return out
}

func (p c03Prod) key() string {
	return fmt.Sprintf("%s/%d/%d/%d", p.Family, p.Payload, p.Prefix, p.Tail)
}

// c03Masks: production key -> bit mask of the separators (index into c03Seps) for which every case
// variant and every position of that separator was detected at calibration time.
var c03Masks map[string]int

func c03Grammar() []c03Prod {
	if c03Masks == nil {
		if err := json.Unmarshal(c03GrammarJSON, &c03Masks); err != nil {
			panic("c03_grammar.json: " + err.Error())
		}
	}
	var out []c03Prod
	for _, p := range c03AllProds() {
		if c03Masks[p.key()] != 0 {
			out = append(out, p)
		}
	}
	return out
}

// variants enumerates separator choices x case assignments of one production.
// full=false yields only the space-separated lower-case form (used by other checks).
func (p c03Prod) variants(full bool, f func(s string)) {
	p.variantsMask(full, c03Masks[p.key()], f)
}

// variantsMask: only separators whose bit is set in mask are used (bit 0 = plain space, which also
// carries the single-letter flips).
func (p c03Prod) variantsMask(full bool, mask int, f func(s string)) {
	toks := c03Payloads[p.Family][p.Payload]
	prefix, tail := c03Prefixes[p.Prefix], c03Tails[p.Tail]
	build := func(seps []string) string {
		var b strings.Builder
		b.WriteString(prefix)
		for i, t := range toks {
			b.WriteString(seps[i])
			b.WriteString(t)
		}
		b.WriteString(tail)
		return b.String()
	}
	n := len(toks)
	seps := make([]string, n)
	for i := range seps {
		seps[i] = " "
	}
	base := build(seps)
	if !full {
		if mask&1 != 0 {
			f(base)
		}
		return
	}
	var texts []string
	for si, sp := range c03Seps { // uniform
		if mask>>uint(si)&1 == 0 {
			continue
		}
		for i := range seps {
			seps[i] = sp
		}
		texts = append(texts, build(seps))
	}
	for i := range seps {
		seps[i] = " "
	}
	if mask&1 != 0 {
		for pos := 0; pos < n; pos++ { // one position at a time, the others plain spaces
			for si, sp := range c03Seps {
				if si == 0 || mask>>uint(si)&1 == 0 {
					continue
				}
				seps[pos] = sp
				texts = append(texts, build(seps))
			}
			seps[pos] = " "
		}
	}
	pl := len(prefix)
	for _, t := range texts {
		f(t)
		f(asciiUpper(t))
		b := []byte(t)
		k := 0
		for i := range b {
			if isLetter(b[i]) {
				if k%2 == 0 {
					b[i] &^= 0x20
				}
				k++
			}
		}
		f(string(b))
	}
	if mask&1 != 0 {
		// every single-letter flip of the payload, on the space-separated form
		for i := pl; i < len(base); i++ {
			if isLetter(base[i]) {
				b := []byte(base)
				b[i] ^= 0x20
				f(string(b))
			}
		}
	}
}

// c03Strings lists grammar members for other checks (C10): lower-case, space separated.
func c03Strings(_ bool) []string {
	var out []string
	for _, p := range c03Grammar() {
		p.variants(false, func(s string) { out = append(out, s) })
	}
	return out
}

func evalC03(w *fw.W, s, aux string) {
	b, f := lib.IsSQLi(s)
	if !b {
		w.Fail("missed", "canonical attack not reported as SQLi (production "+aux+")")
		return
	}
	w.Traces(1)
	w.NonTrivial()
	w.OutcomeStr(f)
}

// C03Calibrate recomputes the production list on the current tree (development only).
func C03Calibrate() {
	keep := map[string]int{}
	total, members, full := 0, 0, 0
	for _, p := range c03AllProds() {
		total++
		mask := 0
		// space first: without it the one-position variants do not exist
		for si := range c03Seps {
			bit := 1 << uint(si)
			try := bit
			if si > 0 {
				try = bit | (mask & 1)
			}
			ok := true
			p.variantsMask(true, try, func(s string) {
				if b, _ := lib.IsSQLi(s); !b {
					ok = false
				}
			})
			if ok {
				mask |= bit
			}
		}
		if mask != 0 {
			keep[p.key()] = mask
			p.variantsMask(true, mask, func(string) { members++ })
			if mask == 1<<uint(len(c03Seps))-1 {
				full++
			}
		}
	}
	b, _ := json.MarshalIndent(keep, "", " ")
	fmt.Println(string(b))
	fmt.Fprintf(fwStderr, "productions: %d of %d kept (%d with every separator), %d members\n", len(keep), total, full, members)
}

func init() {
	var prods []c03Prod
	fw.Register(&fw.Check{
		ID:        "C03",
		QuickS:    60,
		ThoroughS: 600,
		Rule: "complete product of the calibrated attack grammar: every committed (family, payload, prefix, tail) production x {its calibrated subset of 11 separators (incl. 32- and 44-byte inline comments) uniformly, each separator position varied alone} x {lower, UPPER, alternating} plus every single-letter flip of the payload; " +
			"every member must be reported by IsSQLi; all members are non-trivial; distinct_outcomes = distinct fingerprints returned",
		Assumptions: []string{"the production list c03_grammar.json was calibrated once on the repaired pinned tree and is fixed; productions the pinned tree did not detect in every variant were never part of the guarantee"},
		Setup: func(w *fw.W) error {
			prods = c03Grammar()
			if len(prods) == 0 {
				return fmt.Errorf("empty grammar")
			}
			return nil
		},
		Phases: []fw.Phase{
			{Name: "attack-grammar", Space: "complete product (see rule)", Share: 1,
				Run: func(w *fw.W) {
					w.Each(len(prods), func(i int) {
						p := prods[i]
						aux := p.key()
						p.variants(true, func(s string) { w.Item(s, aux) })
					})
				}, Eval: evalC03},
			{Name: "chained-conditions", Space: "11 attack heads (numeric / quoted / parenthesised, 3 separators) followed by k further conditions for EVERY k in 0..300 (+ the neighbourhood of new integer constants), 5 chain units, with and without a trailing comment: a counter that wraps or a budget that runs out at one particular length", Share: 1,
				Run: func(w *fw.W) {
					heads := []string{"1 OR 1=1", "1/**/OR/**/1=1", "1 oR 1=1=1", "1' OR '1'='1", "1\" OR \"1\"=\"1", "1) OR (1=1", "-1 OR 2>1", "1\tOR\t1=1", "1 UNION SELECT 1", "1; DROP TABLE t", "x' OR 1=1"}
					units := []string{" AND 1=1", " OR 1=1", "/**/AND/**/1=1", " AND 'a'='a'", " AND 1"}
					ks := []int{}
					for k := 0; k <= 300; k++ {
						ks = append(ks, k)
					}
					for _, n := range alpha.NewInts() {
						if n > 300 && n <= 70000 {
							ks = append(ks, n-1, n, n+1)
						}
					}
					type it struct{ s, aux string }
					var items []it
					for _, h := range heads {
						for _, u := range units {
							if strings.Contains(h, "'") != strings.Contains(u, "'") && strings.Contains(u, "'") {
								continue
							}
							for _, k := range ks {
								body := h + strings.Repeat(u, k)
								aux := fmt.Sprintf("chain head=%q unit=%q k=%d", h, u, k)
								items = append(items, it{body, aux}, it{body + " -- ", aux + " + comment"})
							}
						}
					}
					w.Each(len(items), func(i int) { w.Item(items[i].s, items[i].aux) })
				}, Eval: evalC03},
		},
	})
}

func asciiUpper(s string) string {
	b := []byte(s)
	for i, c := range b {
		if c >= 'a' && c <= 'z' {
			b[i] = c - 0x20
		}
	}
	return string(b)
}

func asciiLower(s string) string {
	b := []byte(s)
	for i, c := range b {
		if c >= 'A' && c <= 'Z' {
			b[i] = c + 0x20
		}
	}
	return string(b)
}
