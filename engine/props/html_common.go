package props

import (
	"fmt"
	"strings"
	"sync"

	lib "github.com/corazawaf/libinjection-go"

	"verif/refhtml"
)

var (
	listsOnce sync.Once
	hLists    *refhtml.Lists
	hTags     []string
	hAttrs    []lib.VerifNamed
	hEvents   []lib.VerifNamed
)

// htmlLists builds the model's black lists from the project's own tables (via the hooks).
func htmlLists() *refhtml.Lists {
	listsOnce.Do(func() {
		tags, attrs, events, _ := lib.VerifXSSTables()
		hTags, hAttrs, hEvents = tags, attrs, events
		l := &refhtml.Lists{Tags: tags, Attrs: map[string]int{}, Events: map[string]int{}}
		// first occurrence wins, as in a linear scan of the list
		for _, a := range attrs {
			if _, ok := l.Attrs[a.Name]; !ok {
				l.Attrs[a.Name] = a.Type
			}
		}
		for _, e := range events {
			if _, ok := l.Events[e.Name]; !ok {
				l.Events[e.Name] = e.Type
			}
		}
		hLists = l
	})
	return hLists
}

var h5TypeNames = []string{"DATA_TEXT", "TAG_NAME_OPEN", "TAG_NAME_CLOSE", "TAG_NAME_SELFCLOSE", "TAG_DATA", "TAG_CLOSE", "ATTR_NAME", "ATTR_VALUE", "TAG_COMMENT", "DOCTYPE"}

func h5TypeName(t int) string {
	if t >= 0 && t < len(h5TypeNames) {
		return h5TypeNames[t]
	}
	return fmt.Sprint(t)
}

func fmtImplToks(ts []lib.VerifH5Tok) string {
	var b strings.Builder
	for _, t := range ts {
		fmt.Fprintf(&b, "%s@%d+%d ", h5TypeName(t.Type), t.Off, t.Len)
	}
	return strings.TrimSpace(b.String())
}

func fmtRefToks(ts []refhtml.Tok) string {
	var b strings.Builder
	for _, t := range ts {
		fmt.Fprintf(&b, "%s@%d+%d ", h5TypeName(t.Type), t.Off, t.Len)
	}
	return strings.TrimSpace(b.String())
}

// compareH5 compares implementation tokens with model tokens; returns "" when equal.
func compareH5(impl []lib.VerifH5Tok, ref []refhtml.Tok) string {
	if len(impl) != len(ref) {
		return fmt.Sprintf("token count impl=%d model=%d", len(impl), len(ref))
	}
	for i := range impl {
		if impl[i].Type != ref[i].Type || impl[i].Off != ref[i].Off || impl[i].Len != ref[i].Len {
			return fmt.Sprintf("token %d impl=%s@%d+%d model=%s@%d+%d", i, h5TypeName(impl[i].Type), impl[i].Off, impl[i].Len,
				h5TypeName(ref[i].Type), ref[i].Off, ref[i].Len)
		}
	}
	return ""
}
