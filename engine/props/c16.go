package props

import (
	"fmt"
	"strings"

	lib "github.com/corazawaf/libinjection-go"

	"verif/alpha"
	"verif/fw"
)

// C16 — SQL tokens are faithful ordered slices of the input; scanning progresses.

const sqlClassAlphabet = "kUBEtfn1vso&cA(){}.,:;T?XF\\"

func evalC16(w *fw.W, s, _ string) {
	n := len(s)
	multi := false
	for _, fl := range sqlModes {
		toks, st, capped := lib.VerifSQLTokens(s, fl)
		mn := modeName(fl)
		if capped || len(toks) > n {
			w.Fail("count", fmt.Sprintf("mode %s: more than |s|=%d tokens (or no termination)", mn, n))
			return
		}
		prevEnd := 0
		for i, t := range toks {
			bad := ""
			switch {
			case t.Len < 0 || t.Len > 31:
				bad = "len outside [0,31]"
			case t.Pos < 0 || t.Pos+t.Len > n:
				bad = "token outside the input"
			case t.Val != s[t.Pos:t.Pos+t.Len]:
				bad = fmt.Sprintf("val %q is not the input bytes %q at its offset", t.Val, s[t.Pos:t.Pos+t.Len])
			case t.Before > t.Pos:
				bad = "token starts before the scan step"
			case t.Pos+t.Len > t.After:
				bad = "token extends beyond the consumed span"
			case t.After <= t.Before:
				bad = "scan step consumed no byte"
			case t.Pos < prevEnd:
				bad = fmt.Sprintf("token overlaps the previous one (ends at %d)", prevEnd)
			case strings.IndexByte(sqlClassAlphabet, t.Category) < 0:
				bad = fmt.Sprintf("class %q is not a documented class character", t.Category)
			case i > 0 && t.Before != toks[i-1].After:
				bad = "scan step does not start where the previous one ended"
			}
			if bad != "" {
				w.Fail("token-invariant", fmt.Sprintf("mode %s token %d %s (%d->%d): %s | %s", mn, i, fmtImplTok(t), t.Before, t.After, bad, fmtImplToksSQL(toks)))
				return
			}
			prevEnd = t.Pos + t.Len
		}
		if n > 0 && st.Pos != n {
			w.Fail("scan-end", fmt.Sprintf("mode %s: scan ended at %d, not at end of input %d", mn, st.Pos, n))
			return
		}
		w.Traces(1)
		w.Outcome(uint64(len(toks))<<4 | uint64(fl&0xf))
		if len(toks) > 1 {
			multi = true
		}
	}
	if multi {
		w.NonTrivial()
	}
}

func longTokens() []string {
	var out []string
	for _, n := range []int{30, 31, 32, 33, 64, 200} {
		r := func(u string) string { return strings.Repeat(u, n) }
		out = append(out, r("a"), r("1"), "'"+r("a")+"'", "'"+r("a"), "\""+r("b")+"\"", "`"+r("a")+"`", "@"+r("a"), "@@"+r("a"), "@`"+r("a")+"`",
			"/*"+r("a")+"*/", "--"+r("a"), "-- "+r("a")+"\n1", "#"+r("a"), "["+r("a")+"]", "["+r("a"), "$$"+r("a")+"$$", "$t$"+r("a")+"$t$",
			"q'("+r("a")+")'", "nq'["+r("a")+"]'", "n'"+r("a")+"'", "e'"+r("a")+"'", "u&'"+r("a")+"'", "x'"+r("0")+"'", "b'"+r("0")+"'",
			"0x"+r("f"), "0b"+r("1"), r("1")+"."+r("2")+"e"+r("3"), "$"+r("1"), r("a")+"."+r("b"), "select"+r("a"), r("a")+" union "+r("b"),
			"select."+r("a"), r("\xe9"), r("a")+"`"+r("b"), "1e"+r("a"))
	}
	return out
}

func init() {
	var cuts []string
	long := longTokens()
	fw.Register(&fw.Check{
		ID:        "C16",
		QuickS:    60,
		ThoroughS: 600,
		Rule: "every string over the SQL byte / fragment alphabets up to the completed level, every fixture cut and long tokens of 30..200 bytes per class, in all six modes: per scan step val = s[pos:pos+len], len<=31, before<=pos, pos+len<=after, after>before, " +
			"no overlap with the previous token, consecutive steps are contiguous, scan ends at |s|, class in the documented alphabet, tokens<=|s|; non-trivial = more than one token",
		Assumptions: []string{"token records are read through the build-tagged accessor that loops tokenize() on a fresh state"},
		Setup: func(w *fw.W) error {
			cuts = alpha.Cuts(fixtures(), "'\"`", 4096)
			return nil
		},
		Phases: []fw.Phase{
			{Name: "trie-S1-bytes", Space: "S1^<=3 (quick) / <=4 (thorough) x 6 modes", Share: 4,
				Run: func(w *fw.W) { w.Trie(alpha.S1, 0, w.Pick(3, 4)) }, Eval: evalC16},
			{Name: "trie-S1core-deep", Space: "S1core^4..5 (quick) / ^4..6 (thorough) x 6 modes", Share: 4,
				Run: func(w *fw.W) { w.Trie(alpha.S1core, 4, w.Pick(5, 6)) }, Eval: evalC16},
			{Name: "trie-S2-fragments", Space: "S2^<=4 x 6 modes", Share: 3,
				Run: func(w *fw.W) { w.Trie(alpha.S2, 1, 4) }, Eval: evalC16},
			{Name: "corpus-cuts", Space: "all fixture cuts x 6 modes", Share: 1,
				Run: func(w *fw.W) { w.Each(len(cuts), func(i int) { w.Item(cuts[i], "") }) }, Eval: evalC16},
			{Name: "long-tokens", Space: "35 token shapes x lengths {30,31,32,33,64,200} x 6 modes", Share: 1,
				Run: func(w *fw.W) { w.Each(len(long), func(i int) { w.Item(long[i], "") }) }, Eval: evalC16},
		},
	})
}

func init() {
	c := fw.Lookup("C16")
	c.Phases = append(c.Phases, sqlExtraPhases(evalC16, false)...)
}
