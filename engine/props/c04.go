package props

import (
	"fmt"
	"strings"
	"verif/alpha"

	lib "github.com/corazawaf/libinjection-go"

	"verif/fw"
	"verif/refhtml"
)

// C04 — canonical XSS vectors are detected in every HTML injection context.
//
// The grammar below was calibrated ONCE on the repaired pinned tree: every production listed
// here is detected in every combination; shapes the pinned tree does not detect were never part
// of the guarantee and are left out with a comment. The check never re-calibrates at run time.

type vec struct {
	s      string // lower-case vector text
	ns, nl int    // span of the name whose case / NUL placement is varied (nl == 0: none)
	nulOK  bool   // NUL may be inserted inside the name span (element and attribute names)
	fam    string
	attr   bool // bare attribute form: needs an attribute context prefix
}

// breakout prefixes for element-form vectors (any text without '<' may precede markup)
var c04ElemPrefix = []string{"", ">", "x>", "'>", "\">", "`>", "x ", "' ", "\" ", "` ", "x' ", "x\" ", "--> ", "]]>"}

// prefixes that put a bare attribute in attribute position of the five contexts
var c04AttrPrefix = []string{"", "x ", "' ", "\" ", "` ", "'", "\"", "`", "x' ", "x\" ", "x` ", "x/", "' /"}

var c04Seps = []string{" ", "\t", "\n", "\f", "\r", "/", "\v", "  ", " / "}
var c04Quotes = []string{"", "'", "\"", "`"}

// pinned baseline of the lists (a removed entry must show up as a miss, an added one is covered too)
var c04BaseTags = []string{"applet", "base", "comment", "embed", "frame", "frameset", "handler", "iframe", "import", "isindex", "link", "listener", "meta", "noscript", "object", "script", "style", "vmlframe", "xml", "xss", "svt", "xsl"}
var c04BaseURLAttrs = []string{"action", "by", "background", "dynsrc", "formaction", "folder", "from", "handler", "href", "lowsrc", "poster", "src", "to", "values", "xlink:href"}
var c04BaseBlackAttrs = []string{"xmlns", "xlink", "datasrc", "dataformatas"}
var c04BaseEvents = []string{"abort", "blur", "change", "click", "dblclick", "error", "focus", "keydown", "keypress", "keyup", "load", "mousedown", "mousemove", "mouseout", "mouseover", "mouseup", "reset", "resize", "select", "submit", "unload", "toggle", "animationstart", "beforeunload", "message", "pageshow", "wheel", "zoom"}

func uniqLower(lists ...[]string) []string {
	seen := map[string]bool{}
	var out []string
	for _, l := range lists {
		for _, s := range l {
			s = strings.ToLower(s)
			if !seen[s] {
				seen[s] = true
				out = append(out, s)
			}
		}
	}
	return out
}

// c04Base builds the lower-case base vectors (before prefix / case / NUL expansion).
func c04Base() []vec {
	htmlLists()
	var out []vec
	tags := uniqLower(c04BaseTags, hTags)
	for _, t := range tags {
		for _, end := range []string{">", " ", "/", "\n", " x=1>", "/>", ""} {
			out = append(out, vec{s: "<" + t + end, ns: 1, nl: len(t), nulOK: true, fam: "tag"})
		}
	}
	var evs []string
	for _, e := range hEvents {
		evs = append(evs, e.Name)
	}
	var black []string
	var urlAttrs []string
	var styleAttrs []string
	for _, a := range hAttrs {
		switch a.Type {
		case refhtml.AttrBlack:
			black = append(black, a.Name)
		case refhtml.AttrURL:
			urlAttrs = append(urlAttrs, a.Name)
		case refhtml.AttrStyle:
			styleAttrs = append(styleAttrs, a.Name)
		}
	}
	names := []string{}
	for _, e := range uniqLower(c04BaseEvents, evs) {
		names = append(names, "on"+e)
	}
	names = append(names, uniqLower(c04BaseBlackAttrs, black, []string{"style", "filter"}, styleAttrs)...)
	addAttr := func(name, val, fam string) {
		for _, q := range c04Quotes {
			if q == "" && strings.ContainsAny(val, " \t\n>") {
				continue
			}
			a := name + "=" + q + val + q
			// bare attribute forms
			out = append(out, vec{s: a, ns: 0, nl: len(name), nulOK: true, fam: fam, attr: true})
			out = append(out, vec{s: a + ">", ns: 0, nl: len(name), nulOK: true, fam: fam, attr: true})
			for _, sep := range c04Seps {
				out = append(out, vec{s: "<a" + sep + a + ">", ns: 2 + len(sep), nl: len(name), nulOK: true, fam: fam})
			}
		}
		if strings.ContainsAny(val, " \t\n>") {
			return
		}
		// spaces around '='
		out = append(out, vec{s: "<a " + name + " = " + val + ">", ns: 3, nl: len(name), nulOK: true, fam: fam})
		out = append(out, vec{s: "<a x=1 " + name + "=" + val + ">", ns: 7, nl: len(name), nulOK: true, fam: fam})
		// every HTML white-space byte ends an unquoted value in front of the attribute
		for _, ws := range []string{"\t", "\n", "\f", "\r"} {
			out = append(out, vec{s: "<a x=1" + ws + name + "=" + val + ">", ns: 7, nl: len(name), nulOK: true, fam: fam})
		}
		out = append(out, vec{s: "<a x='1'" + name + "=" + val + ">", ns: 8, nl: len(name), nulOK: true, fam: fam})
	}
	for _, n := range names {
		addAttr(n, "alert(1)", "black-attr")
	}
	// URL attributes x schemes x obfuscations of the scheme
	schemes := []string{"javascript:", "vbscript:", "data:", "view-source:"}
	for _, a := range uniqLower(c04BaseURLAttrs, urlAttrs) {
		for _, sc := range schemes {
			obf := []string{
				sc, "\x01" + sc, " " + sc, "\x7f" + sc, sc[:2] + "\x00" + sc[2:], sc[:3] + "\n" + sc[3:],
				fmt.Sprintf("&#%d;", sc[0]) + sc[1:], fmt.Sprintf("&#x%x;", sc[0]) + sc[1:], fmt.Sprintf("&#X%X;", sc[0]&^0x20) + sc[1:],
				sc[:1] + fmt.Sprintf("&#%d;", sc[1]) + sc[2:], sc[:1] + fmt.Sprintf("&#0000%d;", sc[1]) + sc[2:],
				// the ignorable bytes (LF, NUL) written as character references inside the scheme
				sc[:2] + "&#10;" + sc[2:], sc[:2] + "&#x0A;" + sc[2:], sc[:3] + "&#0;" + sc[3:], sc[:2] + "&#10" + sc[2:],
				// every byte of the scheme as a hexadecimal / decimal reference (each hex digit of each scheme letter is needed)
				allRefs(sc, "&#x%x;"), allRefs(sc, "&#X%X;"), allRefs(sc, "&#%d;"), allRefs(sc, "&#%04d;"), allRefs(sc, "&#x%05x;"),
				sc[:len(sc)-1] + fmt.Sprintf("&#%03d;", sc[len(sc)-1]), sc[:len(sc)-1] + fmt.Sprintf("&#x%04X;", sc[len(sc)-1]),
			}
			for _, o := range obf {
				addAttr(a, o+"alert(1)", "url-attr")
			}
		}
	}
	// indirect attribute names
	for _, v := range []string{"onclick", "onload", "xmlns", "xlink", "datasrc"} {
		addAttr("attributename", v, "indirect")
	}
	// markup declarations, processing instructions, IE conditionals, back-tick comments
	mk := func(s string, ns, nl int) { out = append(out, vec{s: s, ns: ns, nl: nl, fam: "markup"}) }
	for _, tail := range []string{"", " html>", ">", " x", "\n"} {
		mk("<!doctype"+tail, 2, 7)
	}
	for _, tail := range []string{" x>", " x", "%x;>", "\tx \"y\">", "?>", " >", "=>"} {
		mk("<!entity"+tail, 2, 6)
		mk("<?import"+tail, 2, 6)
		mk("<?xml"+tail, 2, 3)
		mk("<![if"+tail, 3, 2)
		mk("<!--[if"+tail, 5, 2)
		mk("<!--[if"+tail+"-->", 5, 2)
	}
	for _, s := range []string{"<!-- ` -->", "<!--`", "<! `>", "<? ` ?>", "<% ` %>", "<%`", "</ `>", "<!--x-->`<!--`-->"} {
		mk(s, 0, 0)
	}
	return out
}

func altCase(b []byte, from, n int) {
	for i := 0; i < n; i++ {
		c := b[from+i]
		if c >= 'a' && c <= 'z' && i%2 == 0 {
			b[from+i] = c - 0x20
		}
	}
}

// expand yields the case and NUL variants of one base vector.
func (v vec) expand(f func(s string)) {
	f(v.s)
	if v.nl == 0 {
		return
	}
	b := []byte(v.s)
	for i := 0; i < v.nl; i++ { // UPPER
		if c := b[v.ns+i]; c >= 'a' && c <= 'z' {
			b[v.ns+i] = c - 0x20
		}
	}
	f(string(b))
	b = []byte(v.s)
	altCase(b, v.ns, v.nl)
	f(string(b))
	for i := 0; i < v.nl; i++ { // each single-letter flip
		if c := v.s[v.ns+i]; c >= 'a' && c <= 'z' {
			b = []byte(v.s)
			b[v.ns+i] = c - 0x20
			f(string(b))
		}
	}
	if v.nulOK {
		for p := v.ns + 1; p < v.ns+v.nl; p++ {
			f(v.s[:p] + "\x00" + v.s[p:])
		}
		// NUL runs (2, 8, 40 bytes) at the middle position and one NUL in every gap at once
		mid := v.ns + (v.nl+1)/2
		if v.nl >= 2 {
			for _, k := range []int{2, 8, 40} {
				f(v.s[:mid] + strings.Repeat("\x00", k) + v.s[mid:])
			}
			var b strings.Builder
			b.WriteString(v.s[:v.ns+1])
			for p := v.ns + 1; p < v.ns+v.nl; p++ {
				b.WriteByte(0)
				b.WriteByte(v.s[p])
			}
			b.WriteString(v.s[v.ns+v.nl:])
			f(b.String())
		}
	}
}

// c04Vectors returns vectors for other checks (C11): base vectors, optionally fully expanded.
func c04Vectors(expanded bool) []string {
	var out []string
	for _, v := range c04Base() {
		if v.fam == "url-attr" && !expanded && strings.Contains(v.s, "<a\t") {
			continue
		}
		if expanded {
			v.expand(func(s string) { out = append(out, s) })
		} else {
			out = append(out, v.s)
		}
	}
	return out
}

func evalC04(w *fw.W, s, aux string) {
	if !lib.IsXSS(s) {
		w.Fail("missed", "canonical vector not reported as XSS ("+aux+")")
		return
	}
	w.Traces(1)
	w.NonTrivial()
	w.Outcome(fw.Hash(aux))
}

func init() {
	var base []vec
	fw.Register(&fw.Check{
		ID:        "C04",
		QuickS:    60,
		ThoroughS: 600,
		Rule: "complete product of the calibrated vector grammar: (every shipped + pinned-baseline black tag x 7 endings; every shipped + baseline event/black/style attribute x 4 quotings x {bare, bare+'>', element form with 9 separators, spaced '=', after another attribute}; " +
			"every URL attribute x 4 schemes x 22 scheme obfuscations; indirect attribute names; doctype/entity/import/xml/IE-conditional/back-tick markup) x (14 breakout prefixes for element forms | 13 attribute-context prefixes for bare attributes) " +
			"x {lower, UPPER, alternating, every single-letter flip of the name, NUL at every interior name position, NUL runs of 2/8/40 in the middle of the name, one NUL in every gap}; every member must be reported by IsXSS; all members are distinct and non-trivial",
		Assumptions: []string{"the grammar is fixed in c04.go (calibrated once on the repaired pinned tree); list entries are read from the current tables and from the pinned baseline"},
		Setup: func(w *fw.W) error {
			base = c04Base()
			return nil
		},
		Phases: []fw.Phase{
			{Name: "vector-grammar", Space: "complete product (see rule)", Share: 1,
				Run: func(w *fw.W) {
					w.Each(len(base), func(i int) {
						v := base[i]
						if w.Tier == "quick" && v.fam == "url-attr" && i%3 != 0 {
							// quick: every third URL vector is fully expanded, the others only as written (all are run in thorough)
							pre := c04ElemPrefix
							if v.attr {
								pre = c04AttrPrefix
							}
							for _, p := range pre {
								w.Item(p+v.s, v.fam+" prefix="+fmt.Sprintf("%q", p))
							}
							return
						}
						pre := c04ElemPrefix
						if v.attr {
							pre = c04AttrPrefix
						}
						for _, p := range pre {
							aux := v.fam + " prefix=" + fmt.Sprintf("%q", p)
							v.expand(func(s string) { w.Item(p+s, aux) })
						}
					})
				}, Eval: evalC04},
			{Name: "long-inputs", Space: "every 25th base vector followed / preceded by 70 000 and 1 100 000 bytes of text (detection must not depend on input size)", Share: 1,
				Run: func(w *fw.W) {
					w.Each(len(base)/25+1, func(i int) {
						if i*25 >= len(base) {
							return
						}
						v := base[i*25]
						for _, n := range []int{70000, 1100000} {
							w.Item(v.s+">"+strings.Repeat("a", n), v.fam+" padded-after")
							if !v.attr {
								w.Item(strings.Repeat("a ", n/2)+v.s, v.fam+" padded-before")
							}
						}
					})
				}, Eval: evalC04},
			{Name: "count-sweep", Space: "5 vectors preceded by k copies of each of 5 units for every k in 0..300, in 3 breakout forms: detection must not depend on how much markup precedes the vector", Share: 1,
				Run: func(w *fw.W) {
					l := alpha.CountSweepHTML()
					w.Each(len(l), func(i int) { w.Item(l[i], "count-sweep") })
				}, Eval: evalC04},
			{Name: "length-boundaries", Space: "black names NUL-padded with 0..64 NULs, URL values with 0..1000 junk bytes / zero digits before the scheme", Share: 1,
				Run: func(w *fw.W) { l := lenVectorsHTML(); w.Each(len(l), func(i int) { w.Item(l[i], "length-boundary") }) }, Eval: evalC04},
		},
	})
}

// C04Calibrate prints every non-detected member grouped by family / prefix / base vector (development aid).
func allRefs(sc, f string) string {
	var sb strings.Builder
	for i := 0; i < len(sc); i++ {
		fmt.Fprintf(&sb, f, sc[i])
	}
	return sb.String()
}

func C04Calibrate() {
	miss := map[string]int{}
	ex := map[string]string{}
	total := 0
	for _, v := range c04Base() {
		pre := c04ElemPrefix
		if v.attr {
			pre = c04AttrPrefix
		}
		for _, p := range pre {
			v.expand(func(s string) {
				total++
				if !lib.IsXSS(p + s) {
					k := fmt.Sprintf("%s attr=%v prefix=%q", v.fam, v.attr, p)
					miss[k]++
					if _, ok := ex[k]; !ok {
						ex[k] = p + s
					}
				}
			})
		}
	}
	fmt.Println("total", total)
	for k, n := range miss {
		fmt.Printf("%6d %s e.g. %q\n", n, k, ex[k])
	}
}
