package props

import "verif/fw"

func init() {
	short := []string{"", ">", "<script>", " onerror=x>", "'><xss>", "\"><xss>", "`><xss>", "=javascript:x>"}
	c := fw.Lookup("C13")
	c.Phases = append(c.Phases, fw.Phase{Name: "automaton-closure-inputs", Serial: true, Share: 4,
		Space: "every input produced by the closure of the tokenizer/classifier automaton (shortest representative of each of ~1200 states + every symbol + 8 suffixes), judged by the C13 oracles in all contexts",
		Run: func(w *fw.W) {
			seen := map[string]bool{}
			htmlClosure(w, short, func(in string, _ int) {
				if !seen[in] {
					seen[in] = true
					w.Item(in, "")
				}
			})
			if !w.Expired() {
				w.Finish()
			}
		}, Eval: evalC13})
	c17 := fw.Lookup("C17")
	c17.Phases = append(c17.Phases, fw.Phase{Name: "order-automaton-closure-inputs", Serial: true, Share: 2,
		Space: "every input produced by the closure of the tokenizer/classifier automaton, token order / bounds invariants in all contexts",
		Run: func(w *fw.W) {
			seen := map[string]bool{}
			htmlClosure(w, short, func(in string, _ int) {
				if !seen[in] {
					seen[in] = true
					w.Item(in, "")
				}
			})
			if !w.Expired() {
				w.Finish()
			}
		}, Eval: evalC17Order})
}
