module verif

go 1.23

require (
	github.com/corazawaf/libinjection-go v0.0.0
	golang.org/x/tools v0.29.0
)

replace github.com/corazawaf/libinjection-go => /repo
