// Package refsql is an independently written executable specification of libinjection's SQLi
// pipeline: byte-class dispatch, per-construct lexers, the folding rewrite rules, fingerprint
// construction, blacklist + whitelist decision and the context cascade. The keyword table is
// data handed in by the caller (the project's own table). Style: forward scans with explicit
// indices, parity by counting, "first index such that" searches.
package refsql

import "strings"

// Token classes.
const (
	TKeyword  = 'k'
	TUnion    = 'U'
	TGroup    = 'B'
	TExpr     = 'E'
	TSQLType  = 't'
	TFunction = 'f'
	TBareword = 'n'
	TNumber   = '1'
	TVariable = 'v'
	TString   = 's'
	TOperator = 'o'
	TLogic    = '&'
	TComment  = 'c'
	TCollate  = 'A'
	TLParen   = '('
	TRParen   = ')'
	TLBrace   = '{'
	TRBrace   = '}'
	TDot      = '.'
	TComma    = ','
	TColon    = ':'
	TSemi     = ';'
	TTSQL     = 'T'
	TUnknown  = '?'
	TEvil     = 'X'
	TFinger   = 'F'
	TBackslash = '\\'
)

// MaxValue is the number of bytes of a token value that are kept.
const MaxValue = 31

// Mode is a parsing mode: virtual opening quote (0, '\'' or '"') and comment dialect.
type Mode struct {
	Quote byte
	MySQL bool
}

// Tok is one token.
type Tok struct {
	Type  byte
	Pos   int
	Len   int // min(true length, 31)
	Val   string
	Open  byte
	Close byte
	Count int
}

// Step is one scan step: the token and the scan offsets around it.
type Step struct {
	Tok
	Before, After int
}

// Stats are the per-pass counters.
type Stats struct {
	DDX, Hash, Folds, Tokens int
}

// Model carries the keyword table.
type Model struct {
	Table map[string]byte
}

func (m *Model) lookup(word string) byte {
	return m.Table[strings.ToUpper(word)]
}

func isWhite(c byte) bool {
	switch c {
	case ' ', '\t', '\n', '\v', '\f', '\r', 0xA0, 0x00:
		return true
	}
	return false
}

func isDigit(c byte) bool { return c >= '0' && c <= '9' }

// span: length of the longest prefix of s[from:] made only of bytes in set.
func span(s string, from int, set string) int {
	i := from
	for i < len(s) && strings.IndexByte(set, s[i]) >= 0 {
		i++
	}
	return i - from
}

// cspan: length of the longest prefix of s[from:] containing no byte of stop.
func cspan(s string, from int, stop string) int {
	i := from
	for i < len(s) && strings.IndexByte(stop, s[i]) < 0 {
		i++
	}
	return i - from
}

const wordStop = " []{}<>:\\?=@!#~+-*/&|^%(),';\t\n\v\f\r\"\xa0\x00"
const varStop = " <>:\\?=@!#~+-*/&|^%(),';\t\n\v\f\r'`\""
const hexDigits = "0123456789ABCDEFabcdef"
const letters = "abcdefghijklmnopqrstuvwxyzABCDEFGHIJKLMNOPQRSTUVWXYZ"

func mk(t byte, pos, length int, s string) Tok {
	l := length
	if l > MaxValue {
		l = MaxValue
	}
	return Tok{Type: t, Pos: pos, Len: l, Val: s[pos : pos+l]}
}

// scanner is the lexer state for one pass.
type scanner struct {
	m     *Model
	s     string
	mode  Mode
	pos   int
	stats Stats
}

// StringEnd is the first-real-terminator rule for quoted strings: starting at content offset cs,
// the string ends at the first delimiter that is not preceded by an odd number of backslashes
// (counted back to cs) and not immediately followed by the same delimiter (a doubled delimiter is
// skipped as a pair). Returns (index of the closing delimiter, true) or (len(s), false).
func StringEnd(s string, cs int, q byte) (int, bool) {
	i := cs
	for i < len(s) {
		if s[i] != q {
			i++
			continue
		}
		k := 0
		for j := i - 1; j >= cs && s[j] == '\\'; j-- {
			k++
		}
		if k%2 == 1 {
			i++
			continue
		}
		if i+1 < len(s) && s[i+1] == q {
			i += 2
			continue
		}
		return i, true
	}
	return len(s), false
}

func (sc *scanner) quoted(pos, offset int, q byte) (Tok, int) {
	cs := pos + offset
	end, closed := StringEnd(sc.s, cs, q)
	t := mk(TString, cs, end-cs, sc.s)
	if offset > 0 {
		t.Open = q
	}
	if closed {
		t.Close = q
		return t, end + 1
	}
	return t, len(sc.s)
}

func (sc *scanner) eolComment(pos int) (Tok, int) {
	i := strings.IndexByte(sc.s[pos:], '\n')
	if i < 0 {
		return mk(TComment, pos, len(sc.s)-pos, sc.s), len(sc.s)
	}
	return mk(TComment, pos, i, sc.s), pos + i + 1
}

func (sc *scanner) word(pos int) (Tok, int) {
	s := sc.s
	L := cspan(s, pos, wordStop)
	t := mk(TBareword, pos, L, s)
	// "SELECT.1", "SELECT`col`": a keyword glued to '.' or '`' is split off
	for i := 0; i < t.Len; i++ {
		if t.Val[i] == '.' || t.Val[i] == '`' {
			if c := sc.m.lookup(t.Val[:i]); c != 0 && c != TBareword {
				return mk(c, pos, i, s), pos + i
			}
		}
	}
	if L <= MaxValue {
		if c := sc.m.lookup(t.Val); c != 0 {
			t.Type = c
		}
	}
	return t, pos + L
}

func (sc *scanner) qstring(pos, offset int) (Tok, int) {
	s := sc.s
	p := pos + offset
	if p >= len(s) || (s[p] != 'q' && s[p] != 'Q') || p+2 >= len(s) || s[p+1] != '\'' || s[p+2] < 33 {
		return sc.word(pos)
	}
	closeCh := s[p+2]
	switch closeCh {
	case '(':
		closeCh = ')'
	case '[':
		closeCh = ']'
	case '{':
		closeCh = '}'
	case '<':
		closeCh = '>'
	}
	cs := p + 3
	for i := cs; i+1 < len(s); i++ {
		if s[i] == closeCh && s[i+1] == '\'' {
			t := mk(TString, cs, i-cs, s)
			t.Open, t.Close = 'q', 'q'
			return t, i + 2
		}
	}
	t := mk(TString, cs, len(s)-cs, s)
	t.Open = 'q'
	return t, len(s)
}

func (sc *scanner) number(pos int) (Tok, int) {
	s := sc.s
	n := len(s)
	if s[pos] == '0' && pos+1 < n {
		digits := ""
		switch s[pos+1] {
		case 'x', 'X':
			digits = hexDigits
		case 'b', 'B':
			digits = "01"
		}
		if digits != "" {
			L := span(s, pos+2, digits)
			if L == 0 {
				return mk(TBareword, pos, 2, s), pos + 2
			}
			return mk(TNumber, pos, 2+L, s), pos + 2 + L
		}
	}
	p := pos
	for p < n && isDigit(s[p]) {
		p++
	}
	if p < n && s[p] == '.' {
		p++
		for p < n && isDigit(s[p]) {
			p++
		}
		if p-pos == 1 {
			return mk(TDot, pos, 1, s), p
		}
	}
	haveE, haveExp := false, false
	if p < n && (s[p] == 'e' || s[p] == 'E') {
		haveE = true
		p++
		if p < n && (s[p] == '+' || s[p] == '-') {
			p++
		}
		for p < n && isDigit(s[p]) {
			haveExp = true
			p++
		}
	}
	if p < n && strings.IndexByte("dDfF", s[p]) >= 0 {
		switch {
		case p+1 == n:
			p++
		case isWhite(s[p+1]) || s[p+1] == ';':
			p++
		case s[p+1] == 'u' || s[p+1] == 'U':
			p++
		}
	}
	if haveE && !haveExp {
		return mk(TBareword, pos, p-pos, s), p
	}
	return mk(TNumber, pos, p-pos, s), p
}

func (sc *scanner) money(pos int) (Tok, int) {
	s := sc.s
	n := len(s)
	dollar := func(next int) (Tok, int) { return mk(TBareword, pos, 1, s), next }
	if pos+1 == n {
		return dollar(n)
	}
	L := span(s, pos+1, "0123456789.,")
	switch {
	case L == 0:
		if s[pos+1] == '$' {
			cs := pos + 2
			i := strings.Index(s[cs:], "$$")
			if i < 0 {
				t := mk(TString, cs, n-cs, s)
				t.Open = '$'
				return t, n
			}
			t := mk(TString, cs, i, s)
			t.Open, t.Close = '$', '$'
			return t, cs + i + 2
		}
		x := span(s, pos+1, letters)
		if x == 0 || pos+1+x == n || s[pos+1+x] != '$' {
			return dollar(pos + 1)
		}
		tag := s[pos : pos+x+2]
		cs := pos + x + 2
		i := strings.Index(s[cs:], tag)
		if i < 0 {
			t := mk(TString, cs, n-cs, s)
			t.Open = '$'
			return t, n
		}
		t := mk(TString, cs, i, s)
		t.Open, t.Close = '$', '$'
		return t, cs + i + len(tag)
	case L == 1 && s[pos+1] == '.':
		return sc.word(pos)
	default:
		return mk(TNumber, pos, L+1, s), pos + L + 1
	}
}

func (sc *scanner) variable(pos int) (Tok, int) {
	s := sc.s
	n := len(s)
	p := pos + 1
	count := 1
	if p < n && s[p] == '@' {
		p++
		count = 2
	}
	if p < n && (s[p] == '`' || s[p] == '\'' || s[p] == '"') {
		t, next := sc.quoted(p, 1, s[p])
		t.Type = TVariable
		t.Count = count
		return t, next
	}
	L := cspan(s, p, varStop)
	t := mk(TVariable, p, L, s)
	t.Count = count
	return t, p + L
}

// lex performs one dispatch at pos. ok=false means no token was produced (whitespace).
func (sc *scanner) lex(pos int) (t Tok, next int, ok bool) {
	s := sc.s
	n := len(s)
	c := s[pos]
	one := func(ty byte) (Tok, int, bool) { return mk(ty, pos, 1, s), pos + 1, true }
	ret := func(t Tok, next int) (Tok, int, bool) { return t, next, true }
	prefixedQuote := func() bool { return pos+2 < n && s[pos+1] == '\'' }
	switch {
	case c <= 32 || c == 127 || c == 0xA0:
		return Tok{}, pos + 1, false
	case c == '\'' || c == '"':
		return ret(sc.quoted(pos, 1, c))
	case c == '`':
		t, next := sc.quoted(pos, 1, '`')
		if sc.m.lookup(t.Val) == TFunction {
			t.Type = TFunction
		} else {
			t.Type = TBareword
		}
		return t, next, true
	case c == '#':
		sc.stats.Hash++
		if sc.mode.MySQL {
			sc.stats.Hash++
			return ret(sc.eolComment(pos))
		}
		return one(TOperator)
	case c == '$':
		return ret(sc.money(pos))
	case c == '%' || c == '+' || c == '^' || c == '~':
		return one(TOperator)
	case c == '(' || c == ')' || c == ',' || c == ';' || c == '{' || c == '}':
		return one(c)
	case c == '?' || c == ']':
		return one(TUnknown)
	case c == '-':
		if pos+1 < n && s[pos+1] == '-' {
			switch {
			case pos+2 == n || isWhite(s[pos+2]):
				return ret(sc.eolComment(pos))
			case !sc.mode.MySQL:
				sc.stats.DDX++
				return ret(sc.eolComment(pos))
			}
		}
		return one(TOperator)
	case c == '/':
		if pos+1 >= n || s[pos+1] != '*' {
			return one(TOperator)
		}
		body := pos + 2
		i := strings.Index(s[body:], "*/")
		length := n - pos
		ty := byte(TComment)
		if i >= 0 {
			length = 2 + i + 2
			if strings.Contains(s[body:body+i+1], "/*") {
				ty = TEvil // nested comment opener
			}
		}
		if body < n && s[body] == '!' {
			ty = TEvil // MySQL conditional comment
		}
		return mk(ty, pos, length, s), pos + length, true
	case c == '\\':
		if pos+1 < n && s[pos+1] == 'N' {
			return mk(TNumber, pos, 2, s), pos + 2, true
		}
		return one(TBackslash)
	case c == '.' || isDigit(c):
		return ret(sc.number(pos))
	case c == '@':
		return ret(sc.variable(pos))
	case c == '[':
		i := strings.IndexByte(s[pos:], ']')
		if i < 0 {
			return mk(TBareword, pos, n-pos, s), n, true
		}
		return mk(TBareword, pos, i+1, s), pos + i + 1, true
	case c == '!' || c == '&' || c == '*' || c == ':' || c == '<' || c == '=' || c == '>' || c == '|':
		if pos+1 >= n {
			return one(TOperator)
		}
		if pos+2 < n && s[pos:pos+3] == "<=>" {
			return mk(TOperator, pos, 3, s), pos + 3, true
		}
		if ty := sc.m.lookup(s[pos : pos+2]); ty != 0 {
			return mk(ty, pos, 2, s), pos + 2, true
		}
		if c == ':' {
			return one(TColon)
		}
		return one(TOperator)
	case c == 'b' || c == 'B' || c == 'x' || c == 'X':
		digits := "01"
		if c == 'x' || c == 'X' {
			digits = hexDigits
		}
		if prefixedQuote() {
			L := span(s, pos+2, digits)
			if pos+2+L < n && s[pos+2+L] == '\'' {
				return mk(TNumber, pos, L+3, s), pos + L + 3, true
			}
		}
		return ret(sc.word(pos))
	case c == 'e' || c == 'E':
		if prefixedQuote() {
			return ret(sc.quoted(pos, 2, '\''))
		}
		return ret(sc.word(pos))
	case c == 'n' || c == 'N':
		if prefixedQuote() {
			return ret(sc.quoted(pos, 2, '\''))
		}
		return ret(sc.qstring(pos, 1))
	case c == 'q' || c == 'Q':
		return ret(sc.qstring(pos, 0))
	case c == 'u' || c == 'U':
		if pos+2 < n && s[pos+1] == '&' && s[pos+2] == '\'' {
			t, next := sc.quoted(pos+2, 1, '\'')
			t.Open = 'u'
			if t.Close == '\'' {
				t.Close = 'u'
			}
			return t, next, true
		}
		return ret(sc.word(pos))
	default:
		// letters, '_', bytes >= 0x80 (except 0xA0)
		return ret(sc.word(pos))
	}
}

// next produces the next token of the pass.
func (sc *scanner) next() (Step, bool) {
	if len(sc.s) == 0 {
		return Step{}, false
	}
	before := sc.pos
	if sc.pos == 0 && sc.mode.Quote != 0 {
		t, nx := sc.quoted(0, 0, sc.mode.Quote)
		sc.pos = nx
		sc.stats.Tokens++
		return Step{Tok: t, Before: before, After: nx}, true
	}
	for sc.pos < len(sc.s) {
		t, nx, ok := sc.lex(sc.pos)
		sc.pos = nx
		if ok {
			sc.stats.Tokens++
			return Step{Tok: t, Before: before, After: nx}, true
		}
	}
	return Step{}, false
}

// Tokens is the full scan of s in the given mode.
func (m *Model) Tokens(s string, mode Mode) ([]Step, Stats, int) {
	sc := &scanner{m: m, s: s, mode: mode}
	var out []Step
	for {
		st, ok := sc.next()
		if !ok {
			break
		}
		out = append(out, st)
		if len(out) > len(s)+2 {
			panic("refsql: tokenizer model does not terminate")
		}
	}
	return out, sc.stats, sc.pos
}
