package refsql

import "strings"

// MaxTokens is the fingerprint length.
const MaxTokens = 5

// at reads byte i of a value the way the reference algorithm does: values are NUL-padded, so a
// read past the end yields 0 (the Go port would fail its bounds check there instead).
func at(v string, i int) byte {
	if i >= 0 && i < len(v) {
		return v[i]
	}
	return 0
}

func in(t byte, set string) bool { return strings.IndexByte(set, t) >= 0 }

func (t *Tok) text() string { return t.Val }

func (t *Tok) isUnary() bool {
	if t.Type != TOperator {
		return false
	}
	switch t.Len {
	case 1:
		return in(t.Val[0], "+-!~")
	case 2:
		return t.Val == "!!"
	case 3:
		return strings.ToUpper(t.Val) == "NOT"
	}
	return false
}

func (t *Tok) isArith() bool {
	return t.Type == TOperator && t.Len == 1 && in(t.Val[0], "*/+-%")
}

func (t *Tok) is(word string) bool { return strings.ToUpper(t.Val) == word }

const mergeLeft = "knoUfETt"
const mergeRight = "knoUfETt&"

// merge: two adjacent word-like tokens that form a phrase of the table become one token.
func (m *Model) merge(a, b *Tok) bool {
	if !in(a.Type, mergeLeft) || !in(b.Type, mergeRight) {
		return false
	}
	if a.Len+b.Len+1 > MaxValue {
		return false // no room for the phrase in a token value
	}
	phrase := a.Val + " " + b.Val
	ty := m.lookup(phrase)
	if ty == 0 {
		return false
	}
	a.Type, a.Len, a.Val = ty, len(phrase), phrase
	return true
}

var pseudoFunctions = []string{"USER_ID", "USER_NAME", "DATABASE", "PASSWORD", "USER", "CURRENT_USER", "CURRENT_DATE",
	"CURRENT_TIME", "CURRENT_TIMESTAMP", "LOCALTIME", "LOCALTIMESTAMP"}

func special5(v []Tok) bool {
	ty := func(i int) byte { return v[i].Type }
	switch {
	case ty(0) == TNumber && (ty(1) == TOperator || ty(1) == TComma) && ty(2) == TLParen && ty(3) == TNumber && ty(4) == TRParen:
		return true
	case ty(0) == TBareword && ty(1) == TOperator && ty(2) == TLParen && (ty(3) == TBareword || ty(3) == TNumber) && ty(4) == TRParen:
		return true
	case ty(0) == TNumber && ty(1) == TRParen && ty(2) == TComma && ty(3) == TLParen && ty(4) == TNumber:
		return true
	case ty(0) == TBareword && ty(1) == TRParen && ty(2) == TOperator && ty(3) == TLParen && ty(4) == TBareword:
		return true
	}
	return false
}

// FoldResult is the folded window.
type FoldResult struct {
	Toks  []Tok
	Stats Stats
	Pos   int // final scan offset
}

// Fold tokenizes and folds s: the folded window of at most 5 tokens.
// v is the token vector (len(v) is "pos" of the algorithm), left counts settled tokens.
func (m *Model) Fold(s string, mode Mode) FoldResult {
	r, _, _ := m.foldCore(s, mode)
	return r
}

// FoldConfig returns the folder's canonical configuration at the moment the input ran out (the
// window, the number of settled tokens, the pending trailing comment, the capped statistics), or
// stopped=true when the folder stopped reading before the end of the input (five tokens settled
// or the evil-brace exit): then no continuation of the input can change this mode's outcome.
func (m *Model) FoldConfig(s string, mode Mode) (key string, stopped bool) {
	_, key, stopped = m.foldCore(s, mode)
	return key, stopped
}

func (m *Model) foldCore(s string, mode Mode) (FoldResult, string, bool) {
	sc := &scanner{m: m, s: s, mode: mode}
	eofKey := ""
	sawEOF := false
	var v []Tok
	left := 0
	more := true
	var lastComment *Tok
	folds := 0

	// leading comments, '(', SQL types and unary operators are skipped
	var first Tok
	for more {
		st, ok := sc.next()
		more = ok
		if !ok {
			sawEOF = true
			eofKey = configKey(nil, 0, nil, sc.stats)
			break
		}
		first = st.Tok
		if !(first.Type == TComment || first.Type == TLParen || first.Type == TSQLType || first.isUnary()) {
			break
		}
	}
	done := func(n int) (FoldResult, string, bool) {
		st := sc.stats
		st.Folds = folds
		return FoldResult{Toks: append([]Tok(nil), v[:n]...), Stats: st, Pos: sc.pos}, eofKey, !sawEOF
	}
	if !more {
		return done(0)
	}
	v = append(v, first)

	fetch := func(want int) {
		for more && len(v) <= MaxTokens && len(v)-left < want {
			st, ok := sc.next()
			more = ok
			if !ok && !sawEOF {
				sawEOF = true
				eofKey = configKey(v, left, lastComment, sc.stats)
			}
			if ok {
				if st.Type == TComment {
					c := st.Tok
					lastComment = &c
				} else {
					lastComment = nil
					v = append(v, st.Tok)
				}
			}
		}
	}
	drop := func(n int) { v = v[:len(v)-n] }

	for {
		if len(v) >= MaxTokens && special5(v) {
			if len(v) > MaxTokens {
				v[1] = v[MaxTokens]
				v = v[:2]
			} else {
				v = v[:1]
			}
			left = 0
		}
		if !more || left >= MaxTokens {
			left = len(v)
			break
		}
		fetch(2)
		if len(v)-left < 2 {
			left = len(v)
			continue
		}
		a, b := &v[left], &v[left+1]
		switch {
		case a.Type == TString && b.Type == TString:
			drop(1)
			folds++
			continue
		case a.Type == TSemi && b.Type == TSemi:
			drop(1)
			folds++
			continue
		case (a.Type == TOperator || a.Type == TLogic) && (b.isUnary() || b.Type == TSQLType):
			drop(1)
			folds++
			left = 0
			continue
		case a.Type == TLParen && b.isUnary():
			drop(1)
			folds++
			if left > 0 {
				left--
			}
			continue
		case m.merge(a, b):
			drop(1)
			folds++
			if left > 0 {
				left--
			}
			continue
		case a.Type == TSemi && b.Type == TFunction && (at(b.Val, 0) == 'I' || at(b.Val, 0) == 'i') && (at(b.Val, 1) == 'F' || at(b.Val, 1) == 'f'):
			b.Type = TTSQL
			continue
		case (a.Type == TBareword || a.Type == TVariable) && b.Type == TLParen && isOneOf(a, pseudoFunctions):
			a.Type = TFunction
			continue
		case a.Type == TKeyword && (a.is("IN") || a.is("NOT IN")):
			if b.Type == TLParen {
				a.Type = TOperator
			} else {
				a.Type = TBareword
			}
			continue
		case a.Type == TOperator && (a.is("LIKE") || a.is("NOT LIKE")):
			if b.Type == TLParen {
				a.Type = TFunction
			}
		case a.Type == TSQLType && in(b.Type, "n1t(fvs"):
			*a = *b
			drop(1)
			folds++
			left = 0
			continue
		case a.Type == TCollate && b.Type == TBareword:
			if strings.IndexByte(b.Val, '_') >= 0 {
				b.Type = TSQLType
				left = 0
			}
		case a.Type == TBackslash:
			if b.isArith() {
				a.Type = TNumber
			} else {
				*a = *b
				drop(1)
				folds++
			}
			left = 0
			continue
		case a.Type == TLParen && b.Type == TLParen:
			drop(1)
			left = 0
			folds++
			continue
		case a.Type == TRParen && b.Type == TRParen:
			drop(1)
			left = 0
			folds++
			continue
		case a.Type == TLBrace && b.Type == TBareword:
			if b.Len == 0 {
				b.Type = TEvil
				return done(left + 2)
			}
			left = 0
			drop(2)
			folds += 2
			continue
		case b.Type == TRBrace:
			drop(1)
			left = 0
			folds++
			continue
		}

		fetch(3)
		if len(v)-left < 3 {
			left = len(v)
			continue
		}
		a, b = &v[left], &v[left+1]
		c := &v[left+2]
		switch {
		case a.Type == TNumber && b.Type == TOperator && c.Type == TNumber:
			drop(2)
			left = 0
			continue
		case a.Type == TOperator && b.Type != TLParen && c.Type == TOperator:
			drop(2)
			left = 0
			continue
		case a.Type == TLogic && c.Type == TLogic:
			drop(2)
			left = 0
			continue
		case a.Type == TVariable && b.Type == TOperator && in(c.Type, "v1n"):
			drop(2)
			left = 0
			continue
		case in(a.Type, "n1") && b.Type == TOperator && in(c.Type, "1n"):
			drop(2)
			left = 0
			continue
		case in(a.Type, "n1vs") && b.Type == TOperator && b.Val == "::" && c.Type == TSQLType:
			drop(2)
			left = 0
			folds += 2
			continue
		case in(a.Type, "n1sv") && b.Type == TComma && in(c.Type, "1nsv"):
			drop(2)
			left = 0
			continue
		case in(a.Type, "EB,") && b.isUnary() && c.Type == TLParen:
			*b = *c
			drop(1)
			left = 0
			continue
		case in(a.Type, "kEB") && b.isUnary() && in(c.Type, "1nvsf"):
			*b = *c
			drop(1)
			left = 0
			continue
		case a.Type == TComma && b.isUnary() && in(c.Type, "1nvs"):
			*b = *c
			left = 0
			drop(3)
			continue
		case a.Type == TComma && b.isUnary() && c.Type == TFunction:
			*b = *c
			drop(1)
			left = 0
			continue
		case a.Type == TBareword && b.Type == TDot && c.Type == TBareword:
			drop(2)
			left = 0
			continue
		case a.Type == TExpr && b.Type == TDot && c.Type == TBareword:
			*b = *c
			drop(1)
			left = 0
			continue
		case a.Type == TFunction && b.Type == TLParen && c.Type != TRParen:
			if a.is("USER") {
				a.Type = TBareword
			}
		}
		left++
	}

	// a trailing comment is put back when there is room
	if left < MaxTokens && lastComment != nil {
		if left < len(v) {
			v[left] = *lastComment
		} else {
			v = append(v, *lastComment)
		}
		left++
	}
	if left > MaxTokens {
		left = MaxTokens
	}
	return done(left)
}

func isOneOf(t *Tok, words []string) bool {
	u := strings.ToUpper(t.Val)
	for _, w := range words {
		if u == w {
			return true
		}
	}
	return false
}

// Context is the outcome of one parsing context.
type Context struct {
	Fingerprint string
	Toks        []Tok
	Blacklisted bool
	Verdict     bool
	Stats       Stats
	Pos         int
}

// Blacklisted: "0" + upper-cased fingerprint is a fingerprint entry of the table.
func (m *Model) Blacklisted(fp string) bool {
	if fp == "" {
		return false
	}
	b := []byte("0" + fp)
	for i, c := range b {
		if c >= 'a' && c <= 'z' {
			b[i] = c - 0x20
		}
	}
	return m.Table[strings.ToUpper(string(b))] == TFinger
}

// Context evaluates one parsing context.
func (m *Model) Context(s string, mode Mode) Context {
	f := m.Fold(s, mode)
	toks := f.Toks
	n := len(toks)
	// PHP back-tick "comment": a trailing, empty, unclosed back-tick word
	if n > 2 {
		l := &toks[n-1]
		if l.Type == TBareword && l.Open == '`' && l.Len == 0 && l.Close == 0 {
			l.Type = TComment
		}
	}
	fp := make([]byte, 0, n)
	for _, t := range toks {
		fp = append(fp, t.Type)
	}
	for _, t := range toks {
		if t.Type == TEvil {
			fp = []byte{TEvil}
			toks = []Tok{{Type: TEvil, Val: "X", Pos: toks[0].Pos, Len: toks[0].Len}}
			break
		}
	}
	c := Context{Fingerprint: string(fp), Toks: toks, Stats: f.Stats, Pos: f.Pos}
	c.Blacklisted = m.Blacklisted(c.Fingerprint)
	c.Verdict = c.Blacklisted && m.notWhitelisted(s, &c)
	return c
}

// notWhitelisted: the exceptions that turn a blacklisted fingerprint back into "not SQLi".
func (m *Model) notWhitelisted(s string, c *Context) bool {
	fp := c.Fingerprint
	t := c.Toks
	n := len(fp)
	if n > 1 && fp[n-1] == TComment && strings.Contains(s, "sp_password") {
		return true
	}
	switch n {
	case 2:
		if fp[1] == TUnion {
			return c.Stats.Tokens != 2
		}
		if at(t[1].Val, 0) == '#' {
			return false
		}
		if t[0].Type == TBareword && t[1].Type == TComment && at(t[1].Val, 0) != '/' {
			return false
		}
		// port-level behaviour mirrored (DESIGN.md section 6.6): "1c" with a non-C-style comment is SQLi outright
		if t[0].Type == TNumber && t[1].Type == TComment && at(t[1].Val, 0) != '/' {
			return true
		}
		if t[0].Type == TNumber && t[1].Type == TComment {
			if c.Stats.Tokens > 2 {
				return true
			}
			// the byte right after the number in the raw input (the number is assumed to start the input)
			ch := at(s, t[0].Len)
			if ch <= 32 {
				return true
			}
			if ch == '/' && at(s, t[0].Len+1) == '*' {
				return true
			}
			if ch == '-' && at(s, t[0].Len+1) == '-' {
				return true
			}
			return false
		}
		if t[1].Len > 2 && at(t[1].Val, 0) == '-' {
			return false
		}
	case 3:
		switch fp {
		case "sos", "s&s":
			return t[0].Open == 0 && t[2].Close == 0 && t[0].Close == t[2].Open
		case "s&n", "n&1", "1&1", "1&v", "1&s":
			if c.Stats.Tokens == 3 {
				return false
			}
		}
		if t[1].Type == TKeyword && (t[1].Len < 5 || strings.ToUpper(t[1].Val[:4]) != "INTO") {
			return false
		}
	}
	return true
}

// Cascade modes in the order the public entry point tries them.
var (
	AsIsANSI    = Mode{0, false}
	AsIsMySQL   = Mode{0, true}
	SingleANSI  = Mode{'\'', false}
	SingleMySQL = Mode{'\'', true}
	DoubleMySQL = Mode{'"', true}
)

// IsSQLi is the public decision: the first firing context of the cascade.
func (m *Model) IsSQLi(s string) (bool, string) {
	if len(s) == 0 {
		return false, ""
	}
	try := func(md Mode) (Context, bool) {
		c := m.Context(s, md)
		return c, c.Verdict
	}
	c, ok := try(AsIsANSI)
	if ok {
		return true, c.Fingerprint
	}
	if c.Stats.DDX != 0 || c.Stats.Hash != 0 {
		if c2, ok := try(AsIsMySQL); ok {
			return true, c2.Fingerprint
		}
	}
	if strings.IndexByte(s, '\'') >= 0 {
		c, ok := try(SingleANSI)
		if ok {
			return true, c.Fingerprint
		}
		if c.Stats.DDX != 0 || c.Stats.Hash != 0 {
			if c2, ok := try(SingleMySQL); ok {
				return true, c2.Fingerprint
			}
		}
	}
	if strings.IndexByte(s, '"') >= 0 {
		if c, ok := try(DoubleMySQL); ok {
			return true, c.Fingerprint
		}
	}
	return false, ""
}

// configKey serialises a folder configuration: everything the continuation can depend on.
func configKey(v []Tok, left int, lastComment *Tok, st Stats) string {
	var b strings.Builder
	for _, t := range v {
		b.WriteByte(t.Type)
		b.WriteString(strings.ToUpper(t.Val))
		b.WriteByte(1)
		b.WriteByte(t.Open + 1)
		b.WriteByte(t.Close + 1)
		if t.Len == 0 {
			b.WriteByte('0')
		}
		b.WriteByte(2)
	}
	b.WriteByte(byte('0' + left))
	if lastComment != nil {
		b.WriteByte('c')
		b.WriteByte(at(lastComment.Val, 0))
		if lastComment.Len > 2 {
			b.WriteByte('L')
		}
	}
	n := st.Tokens
	if n > 4 {
		n = 4
	}
	b.WriteByte(byte('0' + n))
	if st.DDX != 0 {
		b.WriteByte('d')
	}
	if st.Hash != 0 {
		b.WriteByte('h')
	}
	return b.String()
}
