// Package refhtml is an independently written executable specification of libinjection's
// HTML5 tokenizer, XSS classifier, character-reference decoder and URL matcher.
// It is deliberately boring: one loop over an explicit state enum, forward scans with explicit
// indices, "first index such that" searches. The black lists are data handed in by the caller
// (the project's own tables). Deliberate port-level behaviours that are mirrored are listed in
// DESIGN.md section 6.
package refhtml

import "strings"

// Token types (numbering of libinjection).
const (
	DataText = iota
	TagNameOpen
	TagNameClose
	TagNameSelfClose
	TagData
	TagClose
	AttrName
	AttrValue
	TagComment
	DocType
)

// Start contexts.
const (
	CtxData = iota
	CtxNoQuote
	CtxSingle
	CtxDouble
	CtxBack
)

// Attribute classes.
const (
	AttrNone = iota
	AttrBlack
	AttrURL
	AttrStyle
	AttrIndirect
)

// Tok is one token: type and the byte span [Off, Off+Len).
type Tok struct{ Type, Off, Len int }

type st int

const (
	sData st = iota
	sTagOpen
	sEndTagOpen
	sTagName
	sTagNameClose
	sSelfClosing
	sBeforeAttrName
	sAttrName
	sAfterAttrName
	sBeforeAttrValue
	sValueQuoted
	sValueNoQuote
	sAfterValueQuoted
	sMarkupDecl
	sDoctype
	sBogus
	sBogusPercent
	sComment
	sCData
	sEOF
)

func isWhite(c byte) bool { // HTML whitespace as the port defines it (NUL is not white here)
	return c == ' ' || c == '\t' || c == '\n' || c == '\v' || c == '\f' || c == '\r'
}

func isSkip(c byte) bool { // bytes skipped between attributes: whitespace and NUL
	return c == 0 || isWhite(c)
}

func isAlpha(c byte) bool { return (c >= 'a' && c <= 'z') || (c >= 'A' && c <= 'Z') }

// firstByte returns the first index i >= from with s[i] == c, or -1.
func firstByte(s string, from int, c byte) int {
	for i := from; i < len(s); i++ {
		if s[i] == c {
			return i
		}
	}
	return -1
}

// CommentEnd: first i >= from such that s[i:] matches '-' NUL* ('-'|'!') '>'.
// Returns (i, index after the '>') or (-1, 0).
func CommentEnd(s string, from int) (int, int) {
	for i := from; i < len(s); i++ {
		if s[i] != '-' {
			continue
		}
		j := i + 1
		for j < len(s) && s[j] == 0 {
			j++
		}
		if j < len(s) && (s[j] == '-' || s[j] == '!') && j+1 < len(s) && s[j+1] == '>' {
			return i, j + 2
		}
	}
	return -1, 0
}

// Tokenize runs the tokenizer model from the given start context.
func Tokenize(s string, ctx int) []Tok {
	out, _ := tokenizeCore(s, ctx)
	return out
}

// EndKey: the model's control state at the moment the input ran out - which state was scanning,
// the end-tag flag, the pending quote, whether the scan had left offset 0 - i.e. everything the
// tokenization of a continuation depends on.
func EndKey(s string, ctx int) string {
	_, k := tokenizeCore(s, ctx)
	return k
}

func tokenizeCore(s string, ctx int) (toks []Tok, endKey string) {
	var out []Tok
	n := len(s)
	pos := 0
	isClose := false
	var quote byte
	state := sData
	switch ctx {
	case CtxNoQuote:
		state = sBeforeAttrName
	case CtxSingle:
		state, quote = sValueQuoted, '\''
	case CtxDouble:
		state, quote = sValueQuoted, '"'
	case CtxBack:
		state, quote = sValueQuoted, '`'
	}
	emit := func(t, off, l int) { out = append(out, Tok{t, off, l}) }
	cur := state
	key := func() string {
		return string([]byte{byte('A' + cur), boolByte(isClose), quote + 1, boolByte(pos > 0)})
	}
	for steps := 0; steps < 4*n+16; steps++ {
		if state != sEOF {
			cur = state
		}
		switch state {
		case sEOF:
			return out, key()

		case sData:
			i := firstByte(s, pos, '<')
			if i < 0 {
				if n-pos > 0 {
					emit(DataText, pos, n-pos)
				}
				return out, key()
			}
			if i > pos {
				emit(DataText, pos, i-pos)
			}
			pos = i + 1
			state = sTagOpen

		case sTagOpen:
			if pos >= n {
				return out, key()
			}
			c := s[pos]
			switch {
			case c == '!':
				pos++
				state = sMarkupDecl
			case c == '/':
				pos++
				isClose = true
				state = sEndTagOpen
			case c == '?':
				pos++
				state = sBogus
			case c == '%':
				pos++
				state = sBogusPercent
			case isAlpha(c) || c == 0:
				state = sTagName
			default:
				// the '<' was not markup: it is a one-byte text token, scanning resumes after it
				emit(DataText, pos-1, 1)
				state = sData
			}

		case sEndTagOpen:
			if pos >= n {
				return out, key()
			}
			c := s[pos]
			switch {
			case c == '>':
				state = sData // "</>" : the '>' is ordinary text; the close flag stays set
			case isAlpha(c):
				state = sTagName
			default:
				isClose = false
				state = sBogus
			}

		case sTagName:
			i := pos
			for i < n && !(isWhite(s[i]) || s[i] == '/' || s[i] == '>') {
				i++ // NUL bytes are part of the name
			}
			switch {
			case i == n:
				emit(TagNameOpen, pos, n-pos)
				state = sEOF
			case s[i] == '/':
				emit(TagNameOpen, pos, i-pos)
				pos = i + 1
				state = sSelfClosing
			case s[i] == '>':
				if isClose {
					emit(TagClose, pos, i-pos)
					isClose = false
					pos = i + 1
					state = sData
				} else {
					emit(TagNameOpen, pos, i-pos)
					pos = i
					state = sTagNameClose
				}
			default: // whitespace
				emit(TagNameOpen, pos, i-pos)
				pos = i + 1
				state = sBeforeAttrName
			}

		case sTagNameClose:
			isClose = false
			emit(TagNameClose, pos, 1)
			pos++
			if pos < n {
				state = sData
			} else {
				state = sEOF
			}

		case sSelfClosing:
			if pos >= n {
				return out, key()
			}
			if s[pos] == '>' {
				emit(TagNameSelfClose, pos-1, 2)
				pos++
				state = sData
			} else {
				state = sBeforeAttrName
			}

		case sBeforeAttrName:
			for pos < n && isSkip(s[pos]) {
				pos++
			}
			if pos >= n {
				return out, key()
			}
			switch s[pos] {
			case '/':
				pos++
				state = sSelfClosing
			case '>':
				emit(TagNameClose, pos, 1) // note: the close flag is not reset on this path
				pos++
				state = sData
			default:
				state = sAttrName
			}

		case sAttrName:
			i := pos + 1 // the first byte always belongs to the name
			for i < n && !(isWhite(s[i]) || s[i] == '/' || s[i] == '=' || s[i] == '>') {
				i++
			}
			emit(AttrName, pos, i-pos)
			switch {
			case i >= n:
				pos = n
				state = sEOF
			case s[i] == '/':
				pos = i + 1
				state = sSelfClosing
			case s[i] == '=':
				pos = i + 1
				state = sBeforeAttrValue
			case s[i] == '>':
				pos = i
				state = sTagNameClose
			default:
				pos = i + 1
				state = sAfterAttrName
			}

		case sAfterAttrName:
			for pos < n && isSkip(s[pos]) {
				pos++
			}
			if pos >= n {
				return out, key()
			}
			switch s[pos] {
			case '/':
				pos++
				state = sSelfClosing
			case '=':
				pos++
				state = sBeforeAttrValue
			case '>':
				state = sTagNameClose
			default:
				state = sAttrName
			}

		case sBeforeAttrValue:
			for pos < n && isSkip(s[pos]) {
				pos++
			}
			if pos >= n {
				return out, key()
			}
			switch s[pos] {
			case '"', '\'', '`':
				quote = s[pos]
				state = sValueQuoted
			default:
				state = sValueNoQuote
			}

		case sValueQuoted:
			if pos > 0 {
				pos++ // skip the real opening quote; at offset 0 the quote is virtual (start context)
			}
			i := firstByte(s, pos, quote)
			if i < 0 {
				emit(AttrValue, pos, n-pos)
				state = sEOF
			} else {
				emit(AttrValue, pos, i-pos)
				pos = i + 1
				state = sAfterValueQuoted
			}

		case sValueNoQuote:
			i := pos
			for i < n && !(isWhite(s[i]) || s[i] == '>') {
				i++
			}
			emit(AttrValue, pos, i-pos)
			switch {
			case i >= n:
				state = sEOF
			case s[i] == '>':
				pos = i
				state = sTagNameClose
			default:
				pos = i + 1
				state = sBeforeAttrName
			}

		case sAfterValueQuoted:
			if pos >= n {
				return out, key()
			}
			c := s[pos]
			switch {
			case isWhite(c):
				pos++
				state = sBeforeAttrName
			case c == '/':
				pos++
				state = sSelfClosing
			case c == '>':
				emit(TagNameClose, pos, 1)
				pos++
				state = sData
			default:
				state = sBeforeAttrName
			}

		case sMarkupDecl:
			rem := n - pos
			switch {
			case rem >= 7 && strings.ToLower(s[pos:pos+7]) == "doctype":
				state = sDoctype
			case rem >= 7 && s[pos:pos+7] == "[CDATA[":
				pos += 7
				state = sCData
			case rem >= 2 && s[pos] == '-' && s[pos+1] == '-':
				pos += 2
				state = sComment
			default:
				state = sBogus
			}

		case sDoctype:
			i := firstByte(s, pos, '>')
			if i < 0 {
				emit(DocType, pos, n-pos)
				state = sEOF
			} else {
				emit(DocType, pos, i-pos)
				pos = i + 1
				state = sData
			}

		case sBogus:
			i := firstByte(s, pos, '>')
			if i < 0 {
				emit(TagComment, pos, n-pos)
				state = sEOF
			} else {
				emit(TagComment, pos, i-pos)
				pos = i + 1
				state = sData
			}

		case sBogusPercent:
			i := strings.Index(s[pos:], "%>")
			if i < 0 {
				emit(TagComment, pos, n-pos)
				state = sEOF
			} else {
				emit(TagComment, pos, i)
				pos = pos + i + 2
				state = sData
			}

		case sComment:
			i, after := CommentEnd(s, pos)
			if i < 0 {
				emit(TagComment, pos, n-pos)
				state = sEOF
			} else {
				emit(TagComment, pos, i-pos)
				pos = after
				state = sData
			}

		case sCData:
			i := strings.Index(s[pos:], "]]>")
			if i < 0 {
				emit(DataText, pos, n-pos)
				state = sEOF
			} else {
				emit(DataText, pos, i)
				pos = pos + i + 3
				state = sData
			}
		}
	}
	panic("refhtml: tokenizer model did not terminate")
}

func boolByte(b bool) byte {
	if b {
		return '1'
	}
	return '0'
}

// Lists are the project's black lists (handed in as data).
type Lists struct {
	Tags   []string
	Attrs  map[string]int
	Events map[string]int
}

func normName(s string) string {
	return strings.ToUpper(strings.ReplaceAll(s, "\x00", ""))
}

// BlackTag: element names on the black list (upper-cased, NULs removed); raw length >= 3.
func (l *Lists) BlackTag(name string) bool {
	if len(name) < 3 {
		return false
	}
	u := normName(name)
	for _, t := range l.Tags {
		if u == t {
			return true
		}
	}
	return u == "SVT" || u == "XSL" // port-level literals, DESIGN.md section 6.1
}

// BlackAttr classifies an attribute name.
func (l *Lists) BlackAttr(name string) int {
	u := normName(name)
	if len(u) < 2 {
		return AttrNone
	}
	if len(u) >= 5 {
		if u == "XMLNS" || u == "XLINK" {
			return AttrBlack
		}
		if u[0] == 'O' && u[1] == 'N' {
			if t, ok := l.Events[u[2:]]; ok {
				return t
			}
		}
	}
	if t, ok := l.Attrs[u]; ok {
		return t
	}
	return AttrNone
}

// Decode is the character-reference decoder specification: value and bytes consumed of the
// reference (or plain byte) at the start of s.
func Decode(s string) (val, consumed int) {
	if len(s) == 0 {
		return -1, 0
	}
	if s[0] != '&' {
		return int(s[0]), 1
	}
	amp := func() (int, int) { return '&', 1 }
	if len(s) < 3 || s[1] != '#' {
		return amp()
	}
	base, start := 10, 2
	if s[2] == 'x' || s[2] == 'X' {
		base, start = 16, 3
	}
	digit := func(c byte) int {
		switch {
		case c >= '0' && c <= '9':
			return int(c - '0')
		case base == 16 && c >= 'a' && c <= 'f':
			return int(c-'a') + 10
		case base == 16 && c >= 'A' && c <= 'F':
			return int(c-'A') + 10
		}
		return -1
	}
	end := start
	for end < len(s) && digit(s[end]) >= 0 {
		end++
	}
	if end == start {
		return amp() // "&#" / "&#x" without a digit
	}
	const limit = 0x1000FF
	v := 0
	for i := start; i < end; i++ {
		v = v*base + digit(s[i])
		if v > limit {
			return amp() // too large: a literal ampersand, never wrapped around
		}
	}
	if end < len(s) && s[end] == ';' {
		end++
	}
	return v, end
}

// normalizeURL decodes references, drops leading bytes <= 32, NUL and LF everywhere, upper-cases.
func normalizeURL(v string) string {
	var b []byte
	first := true
	for len(v) > 0 {
		c, k := Decode(v)
		v = v[k:]
		if first && c <= 32 {
			continue
		}
		first = false
		if c == 0 || c == 10 {
			continue
		}
		if c >= 'a' && c <= 'z' {
			c -= 0x20
		}
		b = append(b, byte(c))
	}
	return string(b)
}

var schemes = []string{"DATA", "VIEW-SOURCE", "VBSCRIPT", "JAVA"}

// BlackURL: the normalised value contains one of the scheme stems (port: "contains", DESIGN 6.3).
func BlackURL(v string) bool {
	i := 0
	for i < len(v) && (v[i] <= 32 || v[i] >= 127) {
		i++
	}
	nv := normalizeURL(v[i:])
	for _, s := range schemes {
		if strings.Contains(nv, s) {
			return true
		}
	}
	return false
}

// IsXSS is the classifier specification over the model's token stream for one context.
func (l *Lists) IsXSS(s string, ctx int) bool {
	attr := AttrNone
	for _, t := range Tokenize(s, ctx) {
		text := s[t.Off : t.Off+t.Len]
		if t.Type != AttrValue {
			attr = AttrNone
		}
		switch t.Type {
		case DocType:
			return true
		case TagNameOpen:
			if l.BlackTag(text) {
				return true
			}
		case AttrName:
			attr = l.BlackAttr(text)
		case AttrValue:
			switch attr {
			case AttrBlack, AttrStyle:
				return true
			case AttrURL:
				if BlackURL(text) {
					return true
				}
			case AttrIndirect:
				if l.BlackAttr(text) == AttrBlack {
					return true
				}
			}
			attr = AttrNone
		case TagComment:
			if strings.IndexByte(text, '`') >= 0 {
				return true
			}
			if len(text) > 3 {
				if text[0] == '[' && strings.ToUpper(text[1:3]) == "IF" {
					return true
				}
				if strings.ToUpper(text[0:3]) == "XML" {
					return true
				}
			}
			if len(text) > 5 {
				u := normName(text[:6])
				if u == "IMPORT" || u == "ENTITY" {
					return true
				}
			}
		}
	}
	return false
}

// EndState: the classifier's situation when the input runs out: already fired (absorbing), or the
// class of the attribute name waiting for its value.
func (l *Lists) EndState(s string, ctx int) (fired bool, pending int) {
	attr := AttrNone
	for _, t := range Tokenize(s, ctx) {
		text := s[t.Off : t.Off+t.Len]
		if t.Type != AttrValue {
			attr = AttrNone
		}
		switch t.Type {
		case AttrName:
			attr = l.BlackAttr(text)
		case AttrValue:
			attr = AttrNone
		}
	}
	return l.IsXSS(s, ctx), attr
}

// IsXSSAny is the disjunction over the five contexts.
func (l *Lists) IsXSSAny(s string) bool {
	for c := CtxData; c <= CtxBack; c++ {
		if l.IsXSS(s, c) {
			return true
		}
	}
	return false
}
