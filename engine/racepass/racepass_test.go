// Package racepass is the free-running (uninstrumented) pass of C05: the same call bodies as the
// schedule explorer, run from 16 goroutines under Go's race detector. It is auxiliary: the race
// detector has no false positives, so a report is a genuine race; its silence proves nothing.
package racepass

import (
	"fmt"
	"strings"
	"sync"
	"testing"

	lib "github.com/corazawaf/libinjection-go"
)

var sqlIn = []string{"", "1", "foo", "1 union select 1", "1' or '1'='1", "1 union all select 1", "select 1", "x' or 1=1 --", "1; drop table t",
	"/*!*/", "`if`", "@@version", "1 and 1=1", "a not in (1)", "1 -- x", "1#\n2", "\"a\" or \"b\"", "'", "1 union/**/select 2", "rock' and roll", "foo\" and bar"}

var xssIn = []string{"", "<script>", "</a", "</a ", "<a href=javascript:alert(1)>", "onerror=x", "' onclick=1", "<!doctype", "<![CDATA[x]]>", "<%x%>",
	"plain text", "</>", "<a/b=c>", "x' ", "\" href=data:x", "<!-- ` -->", "<b", "</script", "<svt>", "x", "<a href=&#106;avascript:x>", "onclick",
	"<script>alert(1)</script>" + strings.Repeat("a", 70000), "<!doctype html>"}

func one(i int) string {
	if i < len(sqlIn) {
		b, f := lib.IsSQLi(sqlIn[i])
		return fmt.Sprintf("%v/%s", b, f)
	}
	return fmt.Sprint(lib.IsXSS(xssIn[i-len(sqlIn)]))
}

func TestFreeRunning(t *testing.T) {
	n := len(sqlIn) + len(xssIn)
	ref := make([]string, n)
	for i := 0; i < n; i++ {
		ref[i] = one(i)
	}
	var wg sync.WaitGroup
	errs := make(chan string, 64)
	for g := 0; g < 16; g++ {
		wg.Add(1)
		go func(g int) {
			defer wg.Done()
			for round := 0; round < 40; round++ {
				for k := 0; k < n; k++ {
					i := (k*7 + g*3 + round) % n
					if got := one(i); got != ref[i] {
						select {
						case errs <- fmt.Sprintf("input #%d: concurrent result %q, sequential %q", i, got, ref[i]):
						default:
						}
					}
				}
			}
		}(g)
	}
	wg.Wait()
	close(errs)
	for e := range errs {
		t.Errorf("RESULT-MISMATCH %s", e)
	}
}
