#!/usr/bin/env python3
"""Regenerates /verif/MANIFEST.json from the table below (run after adding a check)."""
import json, os, sys

ROOT = os.path.dirname(os.path.dirname(os.path.abspath(__file__)))

# id -> (category, technique, text, note, design_ref)
CHECKS = {
 "C01": ("model_checking",
         "bounded-exhaustive explicit-state trie search over byte/fragment alphabets on the real code (fresh instance per state) + exhaustive corpus cuts and repetition families",
         "Every string over the SQL byte alphabet (68 symbols, <=4 quick / <=5 thorough), the fragment alphabet (65 construct openers/closers, <=3/<=4, with scan-offset trace in all six modes and every context evaluated), the token-class alphabet (53, <=4/<=5; 16-symbol core to 6/7 tokens), every cut of every repository fixture and every opener+unit^k+closer repetition is run through the real IsSQLi; a panic, fatal error, hang, out-of-range scan offset or a tokenizer that does not finish in len+2 steps is a violation. Totality is a forall-inputs claim; a complete enumeration of small well-chosen alphabets is the strongest statement this family can make about it.",
         "Nothing is claimed beyond the enumerated alphabets and levels (evidence lists the level completed). Trusted: the Go runtime's bounds checks turn every bad index into a panic; hooks in verif_hooks.go are read-only wrappers.",
         "4 C01"),
 "C02": ("model_checking",
         "bounded-exhaustive explicit-state trie search over HTML byte/fragment alphabets on the real code in all five contexts + exhaustive corpus cuts and MB-scale repetition families in isolated worker processes",
         "Every string over the HTML byte alphabet (39 symbols, <=4/<=5; 20-symbol core to 6-7 in thorough) and the fragment alphabet (markup openers/terminators, <=4/<=5, token trace in all five contexts), every cut of every fixture, and opener+unit^k+closer repetitions up to 1 MB (8 MB thorough) run through the real IsXSS; panic, fatal error (stack exhaustion), hang or out-of-range offset is a violation.",
         "Nothing is claimed beyond the enumerated alphabets and levels. Stack exhaustion is observed as a fatal error of an isolated worker, confirmed by re-running the journalled case alone three times.",
         "4 C02"),
 "C04": ("model_checking",
         "exhaustive enumeration of a finite calibrated vector grammar (complete product, no sampling) on the public API",
         "The complete product of the vector grammar - every shipped and every pinned-baseline black tag, event handler, black/style attribute, URL attribute x scheme x scheme obfuscation, indirect attribute, doctype/entity/import/xml/IE-conditional/back-tick markup, times every breakout prefix of the five contexts, times lower/UPPER/alternating/every single-letter flip and a NUL at every interior name position (about 12 M members in quick, more in thorough) - is run through IsXSS and every member must be reported. The grammar was calibrated once on the repaired pinned tree (all members detected) and is fixed in c04.go.",
         "The guarantee is exactly the enumerated grammar; list entries come from the current tables and from a pinned baseline copy so removals are misses and additions are covered.",
         "4 C04"),
 "C07": ("model_checking",
         "reference-model trace conformance: independent executable model (refhtml) vs implementation, compared field by field on every state of a bounded-exhaustive trie search, in all five contexts",
         "For every string over the HTML byte alphabet (<=5; 20-symbol core to 6-7 in thorough), the fragment alphabet (<=4/<=5) and every fixture cut, in each of the five start contexts, the model's trace (token type/offset/length stream and per-context verdict; IsXSS = OR) is compared with the implementation's; tag/attribute/URL predicates are compared on every list entry x case/NUL/Unicode-folding/near-miss variants and on URL-fragment strings. Closure of the tokenizer/classifier automaton: breadth-first over the model's control state at end of input from the five start contexts over the union alphabet (about 1200 states, fixpoint at depth 13, 87 k transitions x 25 distinguishing suffixes validated on the implementation): inputs of every length.",
         "The model mirrors five deliberate port-level behaviours (DESIGN.md section 6); it reads the project's own lists through the hooks. Conformance beyond the enumerated levels is not claimed.",
         "4 C07"),
 "C11": ("model_checking",
         "bounded-exhaustive trie search x deviation-bounded case re-assignments (all 2^k for k<=8 letters, else <=2 flips) and NUL insertions at every interior name position, differential on the real code",
         "Every lower-case base string over the HTML alphabets (H1<=5, fragments<=3/<=4) and every grammar vector: all 2^k case assignments (k<=8) or lower/UPPER/all single+double flips must leave IsXSS unchanged (bases containing [cdata[ excluded); for every base, context, TAG_NAME_OPEN/ATTR_NAME token of the real stream and interior position (pairs in thorough) a NUL insertion must leave that context's verdict unchanged.",
         "Differential oracle between two runs of the real code; no expectation is hand-written. Case deviations >2 flips on bases with >8 letters are not enumerated.",
         "4 C11"),
 "C13": ("model_checking",
         "bounded-exhaustive trie search with differential oracles between runs of the real code (OR of contexts, context-vs-embedded, prefix invariance)",
         "For every string over H1<=5 (core to 6 in thorough), fragments <=4/<=5 and every fixture cut: IsXSS equals the OR of the five per-context verdicts; each attribute-context verdict equals the data verdict of the string embedded after `<a `, `<a b='`, `<a b=\"`, `<a b=` + back-tick; prepending each of 18 '<'-free texts leaves the data verdict unchanged.",
         "The per-context accessor calls the same isXSS(input, flags) as the public API. Nothing beyond the enumerated levels is claimed.",
         "4 C13"),
 "C15": ("model_checking",
         "bounded-exhaustive trie search over the alphabets minus '<' and '=' on the public API",
         "Every string over (H1 minus < =)<=5/<=6 and over the fragment alphabet minus atoms containing those bytes plus encoded forms (&#60; &#61; javascript: on* href style ...)<=4/<=5, every fixture cut with both bytes deleted, and every base vector of the C04 grammar with its markup bytes respelled in 26 byte-level encodings (URL, HTML references, JS / CSS escapes, UTF-7 units, overlong UTF-8, full-width, high-bit) or carried whole in UTF-7 / base64, bare and behind 6 prefixes, must give IsXSS=false.",
         "Nothing beyond the enumerated levels is claimed.",
         "4 C15"),
 "C17": ("model_checking",
         "bounded-exhaustive trie search with order/bounds invariants + complete enumeration of construct bodies against an independent first-terminator oracle and an empty-construct differential",
         "(a) every string over H1<=5, fragments<=4/<=5 and every fixture cut in five contexts: tokens inside the input, non-overlapping, in order, at most |s|+1; (b) for 9 delimited constructs, every body over the construct's terminator/decoy alphabet up to length 8 (9 thorough) x 3 tails: the construct token starts after the opener, ends at the first terminator found by a plain forward search, and the tokens after it equal those after an empty construct (state reached from elsewhere).",
         "The terminator oracles are strings.Index / an explicit pattern scan, independent of the tokenizer.",
         "4 C17"),
 "C19": ("model_checking",
         "exhaustive trie search of the decoder against a written specification + deviation-bounded exhaustive enumeration of scheme encodings (all combinations for short schemes, <=3/<=4 deviations for long ones)",
         "Decoder: every string over {& # x X ; 0 1 9 a F g space}<=7 (8 thorough) and the overflow family: (value, consumed) equals the specification, 1<=consumed<=|s|. Matcher: every scheme x per-byte encoding combination (7 forms) x 8 leading-junk prefixes x NUL/LF (raw or reference) at every piece boundary must satisfy the URL predicate, and IsXSS(<a ATTR=VALUE>) for every URL attribute x 3 quotings on the <=2/<=3 deviation subset.",
         "Encodings where an unterminated reference swallows the next literal digit are excluded. Deviation bound reported in the evidence.",
         "4 C19"),
 "C03": ("model_checking",
         "exhaustive enumeration of a finite calibrated attack grammar (complete product of productions x separator choices x case assignments) on the public API",
         "Every member of the committed grammar (8492 (family, payload, prefix, tail) productions over the attack families incl. multi-word prefixes, pseudo-function payloads and parenthesised conditions, context prefixes and tails; each expanded by its calibrated separator set uniformly and one position at a time, lower/UPPER/alternating case and every single-letter flip: about 1.21 M strings) is run through IsSQLi and must be reported. The production list was calibrated once on the repaired pinned tree (a production is in the grammar only if every variant was detected) and is fixed in c03_grammar.json.",
         "The guarantee is exactly the enumerated grammar; the check never re-calibrates at run time.",
         "4 C03"),
 "C06": ("model_checking",
         "reference-model trace conformance (independent executable model refsql vs implementation, field by field) on every state of a bounded-exhaustive trie search in all six modes + explicit-state closure of the folder automaton with every transition validated on the implementation",
         "For every string over the SQL byte alphabet (<=3; 30-symbol core to 4/5), the fragment alphabet (<=3/<=4), the token-class alphabet (<=3/<=4; 16-class core to 5/6-7 tokens, which reaches the 5-token special cases and the look-ahead token) and every fixture cut, in each of the six modes: scan steps with offsets and all token fields, folded window, statistics, fingerprint, blacklist bit and verdict of the model are compared with the implementation; plus the public cascade. E-FOLD: breadth-first closure of the folder automaton over the 16-class core (state = the model's folder configuration at end of input; every transition validated on the implementation; quick 5 levels, thorough to the fixpoint of about 1.04 M configurations per mode, i.e. token sequences of every length). Extra spaces: the 48 literal words / prefix forms the folder compares, 14 prefix states, token-length boundaries.",
         "The model takes the project's keyword table as data and mirrors the port-level behaviours listed in DESIGN.md section 6. Conformance beyond the enumerated levels is not claimed.",
         "4 C06"),
 "C08": ("model_checking",
         "bounded-exhaustive trie search with invariants on the public result, cross-checked against per-context evaluations on fresh states",
         "Every string over the SQL byte (<=4), fragment (<=3/<=4), token-class (<=4/<=5, core to 6/7) alphabets and every fixture cut: false comes with the empty string; a returned fingerprint has 1-5 class characters, the comment class only last, is a blacklist member by the real look-up, equals the fingerprint of the first firing reachable context evaluated on a fresh state, and is one of the six fingerprints the reference algorithm (refsql) gives for the input.",
         "Per-context results come from the accessor (sqliFingerprint + checkFingerprint on a fresh state).",
         "4 C08"),
 "C10": ("model_checking",
         "bounded-exhaustive trie search x deviation-bounded case re-assignments (all 2^k for k<=8 free letters, else <=2 flips), differential on the real code",
         "Every base string over 39 SQL bytes (<=5), fragments (<=3/<=4), token classes (<=3/<=4), the lower-case attack grammar and fixture prefixes: all case re-assignments of the non-exempt letters (complete 2^k up to 8 letters, otherwise lower/UPPER and all single and double flips) must leave verdict and fingerprint unchanged. Exempt positions are locked by a syntactic over-approximation.",
         "Over-locking costs coverage, never a false alarm. Deviations >2 flips on bases with >8 free letters are not enumerated.",
         "4 C10"),
 "C12": ("model_checking",
         "bounded-exhaustive trie search; cascade recomputed from fresh-state contexts, virtual-quote differential, and exhaustive 2-step (thorough 3-step) mode histories on one reused scanner object",
         "Every string over the SQL byte (<=3/<=4), fragment (<=3/<=4), token-class (<=3/<=4) alphabets and fixture cuts: (A) IsSQLi equals the first firing element of the documented cascade computed from per-context results on fresh states, and the re-parse gate of each ANSI pass agrees with the '#' / '--x' comment counts of the reference scanner; (B) reading s inside a quote equals reading quote+s as-is (fingerprint, token classes; verdict unless sos/s&s) for both quotes and dialects; (C) every ordered pair (triple in thorough) of the six modes on ONE scanner object reproduces the fresh-state result including counters.",
         "The re-parse gate is read from the ANSI pass' own counters and compared with the reference scanner's counts.",
         "4 C12"),
 "C14": ("model_checking",
         "model checking of the token-class abstraction (all {n,1} sequences vs the real blacklist) + exhaustive conformance of the abstraction to the code (all short identifiers, all word/number sequences to length 7/8, all shape fillings)",
         "All 62 class sequences over {bareword, number} of length 1-5 are absent from the current blacklist (real look-up); every identifier of length <=3 in three case forms that is not a key or key component lexes to one bareword, digit runs to one number; every sequence of up to 7 (8 thorough) items over a 10-item set is not SQLi and folds to its first five classes; every filling of 32 calibrated benign shapes is not SQLi; one word or number of every length 1..400 and around the size constants, and one plain word = filler^L + a keyword spelling for every L in 1..120 and -34..+34 around 2^7..2^16 and every new integer constant (a suffix of a word is never a keyword), are not SQLi.",
         "Admissibility is computed from the current table. The shape list was calibrated once on the repaired pinned tree.",
         "4 C14"),
 "C16": ("model_checking",
         "bounded-exhaustive trie search with per-scan-step invariants on the real token records in all six modes",
         "Every string over the SQL byte alphabet (<=4; core to 5-6 thorough), fragments (<=4), fixture cuts and 30-200 byte tokens of every class, in six modes: val = s[pos:pos+len], len<=31, before<=pos, pos+len<=after, after>before, no overlap, contiguous steps, scan ends at |s|, class in the documented alphabet, tokens<=|s|.",
         "Token records come from the accessor looping tokenize() on a fresh state.",
         "4 C16"),
 "C18": ("model_checking",
         "complete enumeration of literal bodies over the terminator/escape alphabet for every opening form, against an independent first-real-terminator oracle",
         "25 opening forms x every body over {delimiter, backslash, a, other quote} up to length 10 (11 thorough) x 2 tails; all 223 q-quote delimiter bytes x bodies to length 5 (6) x 6 prefixes; 4 dollar tags x bodies to length 7 (8); backslash runs of every length 0..80 and around 128 .. 65536 behind fillers of 0 .. 4098 bytes x 4 continuations: content length, close mark and resume offset of the literal token must equal those given by a plain forward scanner written from the property statement.",
         "The oracle is independent of the lexer (forward scan with explicit backslash parity).",
         "4 C18"),
 "C20": ("model_checking",
         "complete explicit enumeration of the finite tables (every entry is a state) with the real look-up paths as transitions, plus baseline inclusion",
         "Every entry of the SQL keyword/fingerprint table, black tags, attributes, events and the hex map is checked for well-formedness and for reachability through the real look-up code (upper and lower-case probe, blacklist test, tag/attribute predicates, lexer class of single-word keys); every entry of the pinned baseline snapshot must be present with the same classification. Finite, exhaustive in both tiers.",
         "Baseline snapshot /verif/baseline/tables.json was dumped once from the pinned tree through the accessors.",
         "4 C20"),
 "C05": ("model_checking",
         "explicit-state closure over call histories (state = digest of all package-level state, fixpoint) + stateless schedule exploration of the auto-instrumented implementation under a cooperative scheduler with iterative preemption bounding and a happens-before race monitor",
         "E-HIST: from every reachable package state (digest of everything reachable from every package-level variable incl. pooled objects) each of 156 IsSQLi/IsXSS operations chosen to collide (same-fingerprint / different-verdict pairs, case-only pairs, equal-length pairs sharing their first N bytes, special bytes raw and inside valid UTF-8, NUL-carrying inputs, 70 KB inputs) is applied to the real code and compared with the fresh-process reference and the reference models; on the unchanged tree the closure is one state, which by induction covers every history. E-SCHED: every interleaving of 2 concurrent calls (136 input pairs; every operation against itself; 2x2 calls; 3 threads in thorough) within the preemption bound; returned fingerprints are kept as returned and must still read the same after every later call; long linear histories (700 / 6000 calls) and pumped histories A.N^k.B with k on the 8-bit wrap boundaries; scheduling points inserted by vinstr at every package-level variable access (accesses through a method receiver are resolved at run time to the package-level object they touch), sync/atomic/pool operation and (per config) function entry / loop iteration, checked for result = sequential reference, data races (vector clocks), deadlock, panics; every failing schedule is replayed and must reproduce. A free-running `go test -race` pass over the same bodies is auxiliary.",
         "Sequentially consistent, preemption-bounded (bound 2; statement-level configs bound 1-2 in thorough, caps reported). State reachable only through closures/unsafe is outside the digest. Instrumentation is generated from /repo's working tree at check time.",
         "4 C05"),
 "C09": ("model_checking",
         "exhaustive enumeration of repetition families on the auto-instrumented implementation with a deterministic work counter (cost model), growth-ratio and per-byte budget oracles",
         "Every family opener + unit^k for every unit of length <=2 (<=3 thorough) over 47 SQL / 33 HTML symbols and atoms (state-changing bytes, keywords, complete tokens, markup openers) x 10 / 12 openers is run at 4 KB, 16 KB and 64 KB on the instrumented build; the deterministic work count (loop iterations + function entries + bytes scanned by strings/bytes calls + concatenation / conversion / append-spread / copy / += sizes) must grow by at most 6x per 4x length (linear 4, quadratic 16) and stay under 2000 units per byte, enforced as a budget. Decided by exact integers, identical on every run; wall-clock only recorded.",
         "Real time <= c * work holds for all statements except costs hidden inside == on long strings and strings.Builder internals (stated in the evidence). Families outside the enumerated units are not covered.",
         "4 C09"),
}

NOT_YET = {
}

PHASES = json.load(open(os.path.join(ROOT, "tools", "phases.json")))

def main():
    props = [json.loads(l) for l in open(os.path.join(ROOT, "properties.jsonl"))]
    checks = []
    na = []
    for p in props:
        pid = p["id"]
        if pid in CHECKS:
            cat, tech, text, note, ref = CHECKS[pid]
            text += " Explored spaces as built (from the engine's phase table, `vcheck -list -json`): " + "; ".join(
                f"[{ph['name']}{' (thorough only)' if ph.get('thorough_only') else ''}] {ph['space']}" for ph in PHASES[pid]) + "."
            checks.append({
                "property_id": pid,
                "quick_cmd": f"bin/check {pid} quick",
                "thorough_cmd": f"bin/check {pid} thorough",
                "evidence_file": f"/verif/evidence/{pid}.json",
                "replay_cmd_template": f"bin/check {pid} replay {{path}}",
                "engine": "vcheck",
                "level_claimed": {"category": cat, "text": text, "design_ref": "DESIGN.md section " + ref},
                "level_note": note,
                "technique": tech,
            })
        else:
            na.append({"property_id": pid, "reason": NOT_YET.get(pid, "check not built yet in this round (planned: see DESIGN.md section 4); not a statement that model checking cannot apply")})
    m = {
        "version": 1,
        "setup_cmd": "bin/setup",
        "hooks": {
            "guard": "verif",
            "enable": "go build -tags verif (bin/check builds /verif/engine with `replace github.com/corazawaf/libinjection-go => /repo` and -tags verif on every run)",
            "baseline_off_cmd": "cd /repo && GOFLAGS=-mod=mod go test -json -vet=off -count=1 -timeout 25m ./...",
            "source_commits": json.load(open(os.path.join(ROOT, "tools", "hook_commits.json"))),
            "add_only": True,
        },
        "engines": [
            {"name": "vcheck", "path": "/verif/engine", "serves_properties": sorted(CHECKS),
             "kind_free_text": "hand-written explicit-state explorer in Go: sharded exhaustive trie/product enumeration in worker processes over the real code (fresh instance per state), reference models with trace conformance, automaton closure, controlled scheduler"},
        ],
        "checks": checks,
        "not_applicable": na,
        "notes": "All checks rebuild the engine against /repo's working tree with -tags verif on every invocation. Known findings: /verif/known_findings.json.",
    }
    json.dump(m, open(os.path.join(ROOT, "MANIFEST.json"), "w"), indent=1)
    print("checks:", len(checks), "not_applicable:", len(na))

if __name__ == "__main__":
    main()
