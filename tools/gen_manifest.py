#!/usr/bin/env python3
"""Regenerates /verif/MANIFEST.json from the table below (run after adding a check)."""
import json, os, sys

ROOT = os.path.dirname(os.path.dirname(os.path.abspath(__file__)))

# id -> (category, technique, text, note, design_ref)
CHECKS = {
 "C01": ("model_checking",
         "bounded-exhaustive explicit-state trie search over byte/fragment alphabets on the real code (fresh instance per state) + exhaustive corpus cuts and repetition families",
         "Every string over the SQL byte alphabet (56 symbols, <=4 quick / <=5 thorough), the fragment alphabet (61 construct openers/closers, <=3/<=4, with scan-offset trace in all six modes and every context evaluated), the token-class alphabet (51, <=4/<=5; 16-symbol core to 6/7 tokens), every cut of every repository fixture and every opener+unit^k+closer repetition is run through the real IsSQLi; a panic, fatal error, hang, out-of-range scan offset or a tokenizer that does not finish in len+2 steps is a violation. Totality is a forall-inputs claim; a complete enumeration of small well-chosen alphabets is the strongest statement this family can make about it.",
         "Nothing is claimed beyond the enumerated alphabets and levels (evidence lists the level completed). Trusted: the Go runtime's bounds checks turn every bad index into a panic; hooks in verif_hooks.go are read-only wrappers.",
         "4 C01"),
 "C02": ("model_checking",
         "bounded-exhaustive explicit-state trie search over HTML byte/fragment alphabets on the real code in all five contexts + exhaustive corpus cuts and MB-scale repetition families in isolated worker processes",
         "Every string over the HTML byte alphabet (29 symbols, <=5; 20-symbol core to 6-7 in thorough) and the fragment alphabet (43 markup openers/terminators, <=4/<=5, token trace in all five contexts), every cut of every fixture, and opener+unit^k+closer repetitions up to 1 MB (8 MB thorough) run through the real IsXSS; panic, fatal error (stack exhaustion), hang or out-of-range offset is a violation.",
         "Nothing is claimed beyond the enumerated alphabets and levels. Stack exhaustion is observed as a fatal error of an isolated worker, confirmed by re-running the journalled case alone three times.",
         "4 C02"),
}

NOT_YET = {
}

def main():
    props = [json.loads(l) for l in open(os.path.join(ROOT, "properties.jsonl"))]
    checks = []
    na = []
    for p in props:
        pid = p["id"]
        if pid in CHECKS:
            cat, tech, text, note, ref = CHECKS[pid]
            checks.append({
                "property_id": pid,
                "quick_cmd": f"bin/check {pid} quick",
                "thorough_cmd": f"bin/check {pid} thorough",
                "evidence_file": f"/verif/evidence/{pid}.json",
                "replay_cmd_template": f"bin/check {pid} replay {{path}}",
                "engine": "vcheck",
                "level_claimed": {"category": cat, "text": text, "design_ref": "DESIGN.md section " + ref},
                "level_note": note,
                "technique": tech,
            })
        else:
            na.append({"property_id": pid, "reason": NOT_YET.get(pid, "check not built yet in this round (planned: see DESIGN.md section 4); not a statement that model checking cannot apply")})
    m = {
        "version": 1,
        "setup_cmd": "bin/setup",
        "hooks": {
            "guard": "verif",
            "enable": "go build -tags verif (bin/check builds /verif/engine with `replace github.com/corazawaf/libinjection-go => /repo` and -tags verif on every run)",
            "baseline_off_cmd": "cd /repo && GOFLAGS=-mod=mod go test -json -vet=off -count=1 -timeout 25m ./...",
            "source_commits": json.load(open(os.path.join(ROOT, "tools", "hook_commits.json"))),
            "add_only": True,
        },
        "engines": [
            {"name": "vcheck", "path": "/verif/engine", "serves_properties": sorted(CHECKS),
             "kind_free_text": "hand-written explicit-state explorer in Go: sharded exhaustive trie/product enumeration in worker processes over the real code (fresh instance per state), reference models with trace conformance, automaton closure, controlled scheduler"},
        ],
        "checks": checks,
        "not_applicable": na,
        "notes": "All checks rebuild the engine against /repo's working tree with -tags verif on every invocation. Known findings: /verif/known_findings.json.",
    }
    json.dump(m, open(os.path.join(ROOT, "MANIFEST.json"), "w"), indent=1)
    print("checks:", len(checks), "not_applicable:", len(na))

if __name__ == "__main__":
    main()
