#!/bin/bash
# usage: tools/run_all.sh quick|thorough   run every check on the unchanged tree, one line per check
T=${1:-quick}
for p in C01 C02 C03 C04 C05 C06 C07 C08 C09 C10 C11 C12 C13 C14 C15 C16 C17 C18 C19 C20; do
  s=$(date +%s)
  out=$(/verif/bin/check $p $T 2>&1); rc=$?
  e=$(( $(date +%s) - s ))
  inc=$(echo "$out" | grep -c "complete=false")
  echo "$p rc=$rc ${e}s incomplete_phases=$inc $(echo "$out" | grep -E '^(VIOLATION|ENGINE-ERROR|KNOWN)' | head -2 | cut -c1-200)"
done
