#!/usr/bin/env python3
"""Audit: every character literal the library compares a byte against must be a symbol (or part of a
symbol) of the byte alphabets S1 (SQL side) / H1 + decAlpha (HTML side). Run after changing alphabets
or when the repository's lexers change: python3 tools/alphabet_audit.py"""
import re, glob, sys, ast
repo = sys.argv[1] if len(sys.argv) > 1 else '/repo'
def lits(files, cut=None):
    out = set()
    for f in files:
        s = open(f).read()
        if cut and f.endswith(cut[0]):
            s = s[:s.index(cut[1])]
        for m in re.finditer(r"'(\\x[0-9a-fA-F]{2}|\\[0-7]{3}|\\.|[^'\\])'", s):
            t = m.group(1)
            if re.fullmatch(r"\\[0-7]{3}", t):
                out.add(chr(int(t[1:], 8)))
            else:
                out.add(ast.literal_eval("'" + t + "'"))
    return out
def alphabet(name):
    s = open('/verif/engine/alpha/alpha.go').read()
    body = s[s.index('var %s = []string{' % name):]
    body = body[:body.index('\n}\n')]
    syms = re.findall(r'"((?:[^"\\]|\\.)*)"', body)
    chars = set()
    for x in syms:
        b = ast.literal_eval('b"' + x.replace('\\u0', '\\\\u0') + '"')
        chars |= {chr(c) for c in b}
    return chars
sql = lits([f for f in glob.glob(repo + '/sqli*.go') if not f.endswith('_test.go')], ('sqli_data.go', 'var sqlKeywords'))
html = lits([repo + '/html5.go', repo + '/xss.go', repo + '/xss_helpers.go'])
# class characters used as token TYPES are not input bytes
types = set('kUBEtfn1vso&cA(){}.,:;T?XF\\')
s1 = alphabet('S1'); h1 = alphabet('H1') | set('0129afFgxX;#&')
miss_sql = sorted(c for c in sql if c not in s1 and c not in types)
miss_html = sorted(c for c in html if c not in h1)
print('SQL literals not in S1 (token-type letters excluded):', miss_sql)
print('HTML literals not in H1/decoder alphabet:', miss_html)
sys.exit(1 if miss_sql or miss_html else 0)
