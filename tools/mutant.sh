#!/bin/bash
# usage: tools/mutant.sh <diff> <prop> [<prop>...]   apply a seeded change to a scratch worktree of /repo and run quick checks against it
# (never touches /repo's working tree; evidence/replays go to a scratch VERIF_ROOT)
set -u
export GOFLAGS=-mod=mod GOPROXY=off GOSUMDB=off GOTOOLCHAIN=local
VROOT="${VROOT:-/verif}"
DIFF="$1"; shift
ID=$(basename "$DIFF" .diff)
WT=${MUTRUN:-/tmp/mutrun}/$ID
rm -rf "$WT"; mkdir -p ${MUTRUN:-/tmp/mutrun}
git -C /repo worktree add -q --detach "$WT" HEAD || exit 3
if ! git -C "$WT" apply "$DIFF"; then echo "$ID APPLY-FAILED"; git -C /repo worktree remove --force "$WT"; exit 3; fi
SCR=${MUTRUN:-/tmp/mutrun}/root-$ID
mkdir -p "$SCR"
for d in engine bin baseline known_findings.json tools; do ln -sfn $VROOT/$d "$SCR/$d"; done
for P in "$@"; do
  out=$(VERIF_REPO="$WT" VERIF_ROOT_OVERRIDE="$SCR" $VROOT/bin/check "$P" quick 2>&1); rc=$?
  nv=$(echo "$out" | grep -c '^VIOLATION')
  first=$(echo "$out" | grep -A2 '^VIOLATION' | head -3 | tr '\n' ' ' | cut -c1-420)
  echo "$ID $P rc=$rc violations=$nv :: $first"
  if [ $rc -eq 2 ]; then echo "$out" | grep -m3 'ENGINE-ERROR' | cut -c1-600; fi
done
git -C /repo worktree remove --force "$WT"
rm -rf "$SCR"
