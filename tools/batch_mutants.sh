#!/bin/bash
# usage: tools/batch_mutants.sh <outdir> <id>...   confirm each seeded change, then run the quick check of its own property
for id in "$@"; do
  p=${id%-*}
  c=$(/verif/tools/confirm_mutant.sh "$1" $id 2>&1 | grep -v '^WARNING' | tail -1)
  echo "CONFIRM $c"
  case "$c" in *"apply=OK build=OK suite=PASS demo-mutant=FAIL"*) ;; *) continue;; esac
  /verif/tools/mutant.sh "$1/$id.diff" $p 2>&1 | grep -v '^WARNING' | cut -c1-360
done
