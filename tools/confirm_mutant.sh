#!/bin/bash
# usage: tools/confirm_mutant.sh <outdir> <id>   (id like C07-1)
# Confirms in a scratch worktree: demo passes on the clean tree; with the diff applied the package
# builds, vets, the unedited suite passes (demo absent) and the demo fails.
set -u
export GOFLAGS=-mod=mod GOPROXY=off GOSUMDB=off GOTOOLCHAIN=local
OUT="$1"; ID="$2"
WT=/tmp/mutconf/$ID
rm -rf "$WT"; mkdir -p /tmp/mutconf
git -C /repo worktree add -q --detach "$WT" HEAD || exit 3
cd "$WT"
res=""
cp "$OUT/${ID}_demo_test.go" ./zz_demo_test.go
RUN=$(grep -o 'TestDemo[A-Za-z0-9_]*' zz_demo_test.go | head -1)
RACE=""; grep -qi '"race"\|-race' "$OUT/$ID.json" 2>/dev/null && RACE=""
if timeout 300 go test -count=1 -run "$RUN" . >/tmp/mutconf/$ID.clean.log 2>&1; then res="$res demo-clean=PASS"; else res="$res demo-clean=FAIL"; fi
rm zz_demo_test.go
if git apply "$OUT/$ID.diff" 2>/tmp/mutconf/$ID.apply.log; then res="$res apply=OK"; else res="$res apply=FAILED"; echo "$ID$res"; cd /; git -C /repo worktree remove --force "$WT"; exit 1; fi
if go build ./... >/dev/null 2>&1 && go vet . >/dev/null 2>&1 && go build -tags verif ./... >/dev/null 2>&1; then res="$res build=OK"; else res="$res build=FAIL"; fi
if timeout 600 go test -count=1 ./... >/tmp/mutconf/$ID.suite.log 2>&1; then res="$res suite=PASS"; else res="$res suite=FAIL"; fi
cp "$OUT/${ID}_demo_test.go" ./zz_demo_test.go
if timeout 300 go test -count=1 -run "$RUN" . >/tmp/mutconf/$ID.mut.log 2>&1; then res="$res demo-mutant=PASS(!)"; else res="$res demo-mutant=FAIL(expected)"; fi
echo "$ID$res"
cd /; git -C /repo worktree remove --force "$WT"
