#!/usr/bin/env python3
"""usage: store_seeded.py <outdir> <id> <detected_by_csv> <what_i_ran>"""
import json, os, shutil, sys
out, mid, det, ran = sys.argv[1:5]
d = f'/verif/seeded/{mid}'
os.makedirs(d, exist_ok=True)
shutil.copy(f'{out}/{mid}.diff', f'{d}/patch.diff')
shutil.copy(f'{out}/{mid}_demo_test.go', f'{d}/demo_test.go')
try:
    a = json.load(open(f'{out}/{mid}.json'))
except Exception:
    a = {}
meta = {
    "id": mid,
    "property": mid.split('-')[0],
    "summary": a.get("summary", ""),
    "needs_to_manifest": a.get("needs_to_manifest", ""),
    "files_touched": a.get("files_touched", []),
    "origin": "written by an independent sub-agent that saw only the property text and a scratch worktree of the repository",
    "confirmed": "tools/confirm_mutant.sh: demo passes on the clean tree; with the patch applied go build / go vet / go build -tags verif pass, the unedited suite passes, the demo fails",
    "what_i_ran": ran,
    "detected_by_quick_checks": [x for x in det.split(',') if x],
    "demo_cmd": a.get("demo_cmd", ""),
}
json.dump(meta, open(f'{d}/meta.json', 'w'), indent=1)
print("stored", mid)
